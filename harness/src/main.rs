//! vcheck: property-based checks for sigp/discv5 (see /verif/DESIGN.md).

use vharness::{props, runner};

use runner::{run_parent, run_replay, run_shard, Property, RunArgs, Tier, DEFAULT_SEED};
use std::path::PathBuf;

struct Cli {
    prop: String,
    tier: Tier,
    seed: u64,
    jobs: usize,
    shard: Option<(usize, usize)>,
    out: Option<PathBuf>,
    replay: Option<PathBuf>,
}

fn parse() -> Cli {
    let mut args = std::env::args().skip(1);
    let prop = args.next().unwrap_or_else(|| usage());
    let mut cli = Cli {
        prop,
        tier: match std::env::var("VERIF_TIER").as_deref() {
            Ok("thorough") => Tier::Thorough,
            _ => Tier::Quick,
        },
        seed: std::env::var("VERIF_SEED").ok().and_then(|s| s.parse::<i128>().ok()).map(|v| v as u64).unwrap_or(DEFAULT_SEED),
        jobs: std::env::var("VERIF_JOBS").ok().and_then(|s| s.parse().ok()).unwrap_or(16),
        shard: None,
        out: None,
        replay: None,
    };
    while let Some(a) = args.next() {
        match a.as_str() {
            "--tier" => {
                cli.tier = match args.next().as_deref() {
                    Some("quick") => Tier::Quick,
                    Some("thorough") => Tier::Thorough,
                    _ => usage(),
                }
            }
            "--seed" => cli.seed = args.next().and_then(|s| s.parse::<i128>().ok()).map(|v| v as u64).unwrap_or_else(|| usage()),
            "--jobs" => cli.jobs = args.next().and_then(|s| s.parse().ok()).unwrap_or_else(|| usage()),
            "--shard" => {
                let s = args.next().unwrap_or_else(|| usage());
                let (a, b) = s.split_once('/').unwrap_or_else(|| usage());
                cli.shard = Some((a.parse().unwrap_or_else(|_| usage()), b.parse().unwrap_or_else(|_| usage())));
            }
            "--out" => cli.out = Some(PathBuf::from(args.next().unwrap_or_else(|| usage()))),
            "--replay" => cli.replay = Some(PathBuf::from(args.next().unwrap_or_else(|| usage()))),
            _ => usage(),
        }
    }
    cli
}

fn usage() -> ! {
    eprintln!("usage: vcheck <C01..C20> [--tier quick|thorough] [--seed N] [--jobs N] [--replay FILE]");
    std::process::exit(2)
}

fn dispatch<P: Property>(cli: &Cli) -> i32 {
    if let Some(path) = &cli.replay {
        return run_replay::<P>(path);
    }
    if let (Some((i, n)), Some(out)) = (cli.shard, &cli.out) {
        run_shard::<P>(cli.tier, cli.seed, i, n, out);
        return 0;
    }
    run_parent::<P>(&RunArgs { tier: cli.tier, seed: cli.seed, jobs: cli.jobs })
}

fn main() {
    if std::env::args().nth(1).as_deref() == Some("FUZZSEEDS") {
        let dir = std::env::args().nth(2).unwrap_or_else(|| usage());
        vharness::fuzzdec::write_seeds(std::path::Path::new(&dir));
        return;
    }
    let cli = parse();
    let code = match cli.prop.as_str() {
        "C01" => dispatch::<props::c01::C01>(&cli),
        "C02" => dispatch::<props::c02::C02>(&cli),
        "C03" => dispatch::<props::c03::C03>(&cli),
        "C04" => dispatch::<props::c04::C04>(&cli),
        "C05" => dispatch::<props::c05::C05>(&cli),
        "C06" => dispatch::<props::c06::C06>(&cli),
        "C07" => dispatch::<props::c07::C07>(&cli),
        "C08" => dispatch::<props::c08::C08>(&cli),
        "C09" => dispatch::<props::c09::C09>(&cli),
        "C10" => dispatch::<props::c10::C10>(&cli),
        "C20" => dispatch::<props::c20::C20>(&cli),
        "C19" => dispatch::<props::c19::C19>(&cli),
        "C17" => dispatch::<props::c17::C17>(&cli),
        "C18" => dispatch::<props::c18::C18>(&cli),
        "C11" => dispatch::<props::c11::C11>(&cli),
        "C12" => dispatch::<props::c12::C12>(&cli),
        "C13" => dispatch::<props::c13::C13>(&cli),
        "C14" => dispatch::<props::c14::C14>(&cli),
        "C15" => dispatch::<props::c15::C15>(&cli),
        "C16" => dispatch::<props::c16::C16>(&cli),
        other => {
            println!("INCONCLUSIVE {other}: no such check");
            2
        }
    };
    std::process::exit(code)
}
