//! 256-bit id arithmetic written for the harness (independent of the crate's `Key`/`Distance`).

use discv5::enr::NodeId;
use serde::{Deserialize, Serialize};

pub type Id = [u8; 32];

pub fn xor(a: &Id, b: &Id) -> Id {
    let mut o = [0u8; 32];
    for i in 0..32 {
        o[i] = a[i] ^ b[i];
    }
    o
}

/// log2 distance in 0..=256 (0 = equal).
pub fn log2(a: &Id, b: &Id) -> u16 {
    let d = xor(a, b);
    for (i, byte) in d.iter().enumerate() {
        if *byte != 0 {
            return (256 - (i * 8) as u16) - byte.leading_zeros() as u16;
        }
    }
    0
}

pub fn bit(d: &Id, i: usize) -> bool {
    // bit i counted from the least significant bit
    let byte = 31 - i / 8;
    (d[byte] >> (i % 8)) & 1 == 1
}

pub fn node_id(id: &Id) -> NodeId {
    NodeId::new(id)
}

/// A key described relative to a local id: `L XOR d` where `d` has its highest set bit at
/// `bucket` (0..=255) and low bits taken from a small pattern family, so that keys repeat and
/// buckets fill up. For bucket `b` at most `min(2^b, NPATTERNS)` distinct keys exist.
#[derive(Clone, Copy, Debug, PartialEq, Eq, Hash, Serialize, Deserialize)]
pub struct RelKey {
    pub bucket: u8,
    pub pat: u8,
}

pub const NPATTERNS: u8 = 20;

fn splitmix(mut x: u64) -> u64 {
    x = x.wrapping_add(0x9E3779B97F4A7C15);
    x = (x ^ (x >> 30)).wrapping_mul(0xBF58476D1CE4E5B9);
    x = (x ^ (x >> 27)).wrapping_mul(0x94D049BB133111EB);
    x ^ (x >> 31)
}

/// The XOR offset `d` for a relative key.
pub fn rel_offset(k: RelKey) -> Id {
    let b = k.bucket as usize;
    let mut low = [0u8; 32];
    match k.pat % NPATTERNS {
        0 => {}
        1 => low = [0xff; 32],
        2 => low = [0x55; 32],
        3 => low = [0xaa; 32],
        4 => low[31] = 1,
        5 => low[31] = 2,
        6 => low[31] = 3,
        p => {
            let mut s = splitmix(p as u64 * 1000 + b as u64);
            for chunk in low.chunks_mut(8) {
                s = splitmix(s);
                chunk.copy_from_slice(&s.to_be_bytes());
            }
        }
    }
    // for tiny buckets enumerate the low bits directly so that all 2^b keys are reachable
    if b < 5 {
        low = [0u8; 32];
        low[31] = (k.pat % NPATTERNS) & ((1u16 << b) - 1) as u8;
    }
    // mask bits >= b, set bit b
    let mut d = [0u8; 32];
    for i in 0..b {
        if bit(&low, i) {
            d[31 - i / 8] |= 1 << (i % 8);
        }
    }
    d[31 - b / 8] |= 1 << (b % 8);
    d
}

pub fn rel_id(local: &Id, k: RelKey) -> Id {
    xor(local, &rel_offset(k))
}

/// An offset whose log2 class is exactly `class` (1..=256) with a low-bit pattern; class 0 = zero.
pub fn class_offset(class: u16, pat: u8) -> Id {
    if class == 0 {
        return [0u8; 32];
    }
    rel_offset(RelKey { bucket: (class - 1) as u8, pat })
}

pub fn hex_id(id: &Id) -> String {
    hex::encode(id)
}

#[cfg(test)]
mod tests {
    use super::*;
    #[test]
    fn classes() {
        let l = [7u8; 32];
        for b in 0..=255u8 {
            for p in 0..NPATTERNS {
                let id = rel_id(&l, RelKey { bucket: b, pat: p });
                assert_eq!(log2(&l, &id), b as u16 + 1);
            }
        }
    }
}

/// serde helper: 32-byte ids as hex strings.
pub mod hex32 {
    use serde::{Deserialize, Deserializer, Serializer};
    pub fn serialize<S: Serializer>(v: &[u8; 32], s: S) -> Result<S::Ok, S::Error> {
        s.serialize_str(&hex::encode(v))
    }
    pub fn deserialize<'de, D: Deserializer<'de>>(d: D) -> Result<[u8; 32], D::Error> {
        let s = String::deserialize(d)?;
        let b = hex::decode(&s).map_err(serde::de::Error::custom)?;
        b.try_into().map_err(|_| serde::de::Error::custom("expected 32 bytes"))
    }
}

/// serde helper: byte vectors as hex strings.
pub mod hexvec {
    use serde::{Deserialize, Deserializer, Serializer};
    pub fn serialize<S: Serializer>(v: &Vec<u8>, s: S) -> Result<S::Ok, S::Error> {
        s.serialize_str(&hex::encode(v))
    }
    pub fn deserialize<'de, D: Deserializer<'de>>(d: D) -> Result<Vec<u8>, D::Error> {
        let s = String::deserialize(d)?;
        hex::decode(&s).map_err(serde::de::Error::custom)
    }
}
