//! vharness: property-based checks for sigp/discv5 (see /verif/DESIGN.md). Library part, shared by
//! the `vcheck` binary and the cargo-fuzz targets in /verif/fuzz.
#![allow(clippy::all)]
#![allow(dead_code)]

pub mod engines;
pub mod findings;
pub mod fuzzdec;
pub mod ids;
pub mod keys;
pub mod props;
pub mod refmodel;
pub mod runner;
