pub mod table;
pub mod query;
