pub mod table;
