pub mod table;
pub mod query;
pub mod wire;
pub mod wire_interp;
pub mod svc;
