//! Query engine: drives the real FindNodeQuery / PredicateQuery state machines (through the
//! verif facade) with generated event sequences and an explicit clock, keeping an independent
//! ledger of what was issued / answered. Serves C09 and C10.

use crate::ids::{self, Id};
use discv5::{
    enr::NodeId,
    verif::{QueryState, VFindNodeQuery, VPredicateQuery, VQueryConfig, VRecord},
};
use proptest::prelude::*;
use serde::{Deserialize, Serialize};
use std::{
    collections::{BTreeMap, HashMap, HashSet},
    time::{Duration, Instant},
};

pub const PEER_TIMEOUT_S: u64 = 10;

#[derive(Clone, Copy, Debug, PartialEq, Eq, Hash, Serialize, Deserialize)]
pub enum PredKind {
    Even,
    Less(u32),
    Always,
    Never,
}

impl PredKind {
    pub fn eval(&self, v: u32) -> bool {
        match self {
            PredKind::Even => v % 2 == 0,
            PredKind::Less(c) => v < *c,
            PredKind::Always => true,
            PredKind::Never => false,
        }
    }
}

#[derive(Clone, Copy, Debug, PartialEq, Eq, Hash, Serialize, Deserialize)]
pub enum Variant {
    FindNode,
    Predicate(PredKind),
}

/// A universe member, described relative to the target.
#[derive(Clone, Copy, Debug, PartialEq, Eq, Hash, Serialize, Deserialize)]
pub enum UId {
    /// target XOR d with log2(d) = class (0 = the target itself)
    Class { class: u16, pat: u8 },
    Rand(#[serde(with = "crate::ids::hex32")] [u8; 32]),
}

#[derive(Clone, Copy, Debug, PartialEq, Eq, Hash, Serialize, Deserialize)]
pub enum PeerClass {
    InFlight,
    TimedOut,
    Answered,
    NeverContacted,
    Unknown,
}

#[derive(Clone, Copy, Debug, PartialEq, Eq, Hash, Serialize, Deserialize)]
pub enum Dt {
    OneSecond,
    JustBelowTimeout,
    Timeout,
    ThreeTimeouts,
}

impl Dt {
    fn dur(&self) -> Duration {
        match self {
            Dt::OneSecond => Duration::from_secs(1),
            Dt::JustBelowTimeout => Duration::from_secs(PEER_TIMEOUT_S) - Duration::from_nanos(1),
            Dt::Timeout => Duration::from_secs(PEER_TIMEOUT_S),
            Dt::ThreeTimeouts => Duration::from_secs(3 * PEER_TIMEOUT_S),
        }
    }
}

#[derive(Clone, Debug, PartialEq, Eq, Hash, Serialize, Deserialize)]
pub enum Ev {
    Next,
    /// several `next` calls in a row, as the service's poll loop does
    NextN(u8),
    Success { class: PeerClass, sel: u16, returned: Vec<(u8, u8)> },
    Failure { class: PeerClass, sel: u16 },
    Advance(Dt),
}

#[derive(Clone, Debug, PartialEq, Eq, Hash, Serialize, Deserialize)]
pub struct QCase {
    pub variant: Variant,
    #[serde(with = "crate::ids::hex32")]
    pub target: Id,
    pub parallelism: u8,
    pub num_results: u8,
    pub universe: Vec<(UId, u8)>,
    /// indices into the universe
    pub initial: Vec<u8>,
    pub sorted_initial: bool,
    pub events: Vec<Ev>,
    /// drain: newly issued requests succeed with an empty answer instead of failing
    pub drain_success: bool,
}

pub fn uid_strategy() -> BoxedStrategy<UId> {
    prop_oneof![
        1 => Just(UId::Class { class: 0, pat: 0 }),
        4 => (1u16..=4, 0u8..7).prop_map(|(class, pat)| UId::Class { class, pat }),
        3 => (250u16..=256, 0u8..20).prop_map(|(class, pat)| UId::Class { class, pat }),
        3 => (1u16..=256, 0u8..20).prop_map(|(class, pat)| UId::Class { class, pat }),
        3 => any::<[u8; 32]>().prop_map(UId::Rand),
    ]
    .boxed()
}

fn class_strategy() -> BoxedStrategy<PeerClass> {
    prop_oneof![
        10 => Just(PeerClass::InFlight),
        4 => Just(PeerClass::TimedOut),
        2 => Just(PeerClass::Answered),
        1 => Just(PeerClass::NeverContacted),
        1 => Just(PeerClass::Unknown),
    ]
    .boxed()
}

pub fn ev_strategy() -> BoxedStrategy<Ev> {
    prop_oneof![
        8 => Just(Ev::Next),
        3 => (1u8..12).prop_map(Ev::NextN),
        8 => (class_strategy(), any::<u16>(), proptest::collection::vec((any::<u8>(), 0u8..3), 0..8))
            .prop_map(|(class, sel, returned)| Ev::Success { class, sel, returned }),
        3 => (class_strategy(), any::<u16>()).prop_map(|(class, sel)| Ev::Failure { class, sel }),
        3 => prop_oneof![
            3 => Just(Dt::OneSecond),
            1 => Just(Dt::JustBelowTimeout),
            2 => Just(Dt::Timeout),
            1 => Just(Dt::ThreeTimeouts)
        ]
        .prop_map(Ev::Advance),
    ]
    .boxed()
}

pub fn variant_strategy() -> BoxedStrategy<Variant> {
    prop_oneof![
        1 => Just(Variant::FindNode),
        1 => prop_oneof![
            3 => Just(PredKind::Even),
            2 => (0u32..6).prop_map(PredKind::Less),
            1 => Just(PredKind::Always),
            1 => Just(PredKind::Never)
        ]
        .prop_map(Variant::Predicate),
    ]
    .boxed()
}

pub fn qcase_strategy(max_events: usize) -> BoxedStrategy<QCase> {
    (
        variant_strategy(),
        any::<[u8; 32]>(),
        1u8..=8,
        1u8..=20,
        proptest::collection::vec((uid_strategy(), 0u8..6), 1..40),
        proptest::collection::vec(any::<u8>(), 0..60),
        prop_oneof![5 => Just(true), 1 => Just(false)],
        proptest::collection::vec(ev_strategy(), 0..max_events),
        any::<bool>(),
    )
        .prop_map(
            |(variant, target, parallelism, num_results, universe, initial, sorted_initial, events, drain_success)| QCase {
                variant,
                target,
                parallelism,
                num_results,
                universe,
                initial,
                sorted_initial,
                events,
                drain_success,
            },
        )
        .boxed()
}

// ------------------------------------------------------------------------------------------
// machine abstraction
// ------------------------------------------------------------------------------------------

pub enum Machine {
    F(VFindNodeQuery),
    P(VPredicateQuery),
}

impl Machine {
    fn next(&mut self, now: Instant) -> QueryState<NodeId> {
        match self {
            Machine::F(m) => m.next(now),
            Machine::P(m) => m.next(now),
        }
    }
    fn on_success(&mut self, peer: &Id, ret: &[(Id, u32)]) {
        let p = ids::node_id(peer);
        match self {
            Machine::F(m) => m.on_success(&p, ret.iter().map(|(i, _)| ids::node_id(i)).collect()),
            Machine::P(m) => {
                let recs: Vec<VRecord> = ret.iter().map(|(i, v)| VRecord { id: ids::node_id(i), value: *v }).collect();
                m.on_success(&p, &recs)
            }
        }
    }
    fn on_failure(&mut self, peer: &Id) {
        let p = ids::node_id(peer);
        match self {
            Machine::F(m) => m.on_failure(&p),
            Machine::P(m) => m.on_failure(&p),
        }
    }
    fn is_stalled(&self) -> bool {
        match self {
            Machine::F(m) => m.is_stalled(),
            Machine::P(m) => m.is_stalled(),
        }
    }
    fn into_result(self) -> Vec<Id> {
        match self {
            Machine::F(m) => m.into_result().into_iter().map(|n| n.raw()).collect(),
            Machine::P(m) => m.into_result().into_iter().map(|n| n.raw()).collect(),
        }
    }
}

// ------------------------------------------------------------------------------------------
// interpreter + ledger
// ------------------------------------------------------------------------------------------

#[derive(Default)]
pub struct Stats {
    pub stalled_reached: bool,
    pub late_success: bool,
    pub spurious_report: bool,
    pub closer_peer_at_capacity: bool,
    pub failures: u64,
    pub successes: u64,
    pub result_len: usize,
    pub issued: usize,
    pub candidates: usize,
    pub finished_before_drain: bool,
    pub excluded_success_after_failure: u64,
}

pub struct Outcome {
    pub violation: Option<(String, String)>,
    pub stats: Stats,
}

fn resolve_uid(target: &Id, u: &UId) -> Id {
    match u {
        UId::Class { class, pat } => ids::xor(target, &ids::class_offset(*class, *pat)),
        UId::Rand(r) => *r,
    }
}

/// `check_t`: raise the C09 family (T1..T4); `check_r`: raise the C10 family (R1..R4).
pub fn run_query_case(c: &QCase, check_t: bool, check_r: bool) -> Outcome {
    let mut stats = Stats::default();
    let target = c.target;
    let k = c.num_results as usize;
    let par = c.parallelism as usize;
    let peer_timeout = Duration::from_secs(PEER_TIMEOUT_S);
    // universe (dedup by id, keep first base value)
    let mut uni: Vec<(Id, u32)> = Vec::new();
    for (u, base) in &c.universe {
        let id = resolve_uid(&target, u);
        if !uni.iter().any(|(i, _)| *i == id) {
            uni.push((id, *base as u32));
        }
    }
    let value_of = |idx: usize, ver: u8| -> u32 { uni[idx].1 + ver as u32 };
    let pred = match c.variant {
        Variant::Predicate(p) => Some(p),
        Variant::FindNode => None,
    };
    // initial list
    let mut initial: Vec<usize> = c.initial.iter().map(|i| (*i as usize * uni.len()) >> 8).collect();
    if c.sorted_initial {
        initial.sort_by_key(|i| ids::xor(&uni[*i].0, &target));
        initial.dedup();
    }
    let cfg = VQueryConfig { parallelism: par, num_results: k, peer_timeout };
    let mut m = match c.variant {
        Variant::FindNode => Machine::F(VFindNodeQuery::new(
            cfg,
            ids::node_id(&target),
            initial.iter().map(|i| ids::node_id(&uni[*i].0)).collect(),
        )),
        Variant::Predicate(p) => Machine::P(VPredicateQuery::new(
            cfg,
            ids::node_id(&target),
            initial.iter().map(|i| (ids::node_id(&uni[*i].0), p.eval(uni[*i].1))).collect(),
            move |r: &VRecord| p.eval(r.value),
        )),
    };
    // ledger
    let mut candidates: HashSet<Id> = initial.iter().take(k).map(|i| uni[*i].0).collect();
    // ids reported with a predicate-satisfying value (initial list counts with its base value)
    let mut matching_reports: HashSet<Id> = HashSet::new();
    if let Some(p) = pred {
        for i in initial.iter().take(k) {
            if p.eval(uni[*i].1) {
                matching_reports.insert(uni[*i].0);
            }
        }
    }
    let mut issued: BTreeMap<Id, Duration> = BTreeMap::new(); // id -> offset at issue
    let mut outcome: HashMap<Id, bool> = HashMap::new(); // id -> success?
    let mut accepted_success: HashSet<Id> = HashSet::new();
    let mut finished = false;
    let mut ever_stalled = false;
    let base = Instant::now();
    let mut off = Duration::from_secs(0);

    macro_rules! viol {
        ($sig:expr, $($arg:tt)*) => {{
            let sig: String = $sig.to_string();
            if (sig.starts_with('T') && check_t) || (sig.starts_with('R') && check_r) {
                return Outcome { violation: Some((sig, format!($($arg)*))), stats };
            }
        }};
    }

    // one `next` call with all T-checks
    macro_rules! do_next {
        () => {{
            // requests in flight by the true clock, and the limit that applies to THIS call (a stalled
            // lookup widens it to num_results; the mode only changes when an outcome is delivered)
            let stalled_before = m.is_stalled();
            let inflight_before = issued.iter().filter(|(i, t)| !outcome.contains_key(*i) && off < **t + peer_timeout).count();
            if stalled_before && accepted_success.len() < par && !finished {
                viol!(
                    "T2/stalled-without-enough-answers",
                    "the lookup is in its stalled mode (limit num_results = {}) although only {} answers were accepted so far; it takes {} answers in a row without progress to stall",
                    k, accepted_success.len(), par
                );
            }
            let st = m.next(base + off);
            if m.is_stalled() {
                ever_stalled = true;
                stats.stalled_reached = true;
            }
            if let QueryState::Waiting(Some(p)) = &st {
                let limit = if stalled_before { k } else { par };
                if inflight_before >= limit && !finished {
                    viol!(
                        "T2/request-handed-out-at-capacity",
                        "next() handed out {} although {} requests were in flight (not answered, not timed out); the limit of a lookup that is {} is {}",
                        ids::hex_id(&p.raw()), inflight_before, if stalled_before { "stalled (num_results)" } else { "iterating (parallelism)" }, limit
                    );
                }
            }
            match &st {
                QueryState::Finished => {
                    finished = true;
                }
                QueryState::Waiting(Some(p)) => {
                    let id = p.raw();
                    if finished {
                        viol!("T3/finished-not-absorbing", "next() handed out peer {} after it had returned Finished", ids::hex_id(&id));
                    }
                    if !candidates.contains(&id) {
                        viol!("T1/contacted-non-candidate", "next() handed out {} which is not in the candidate set", ids::hex_id(&id));
                    }
                    if issued.contains_key(&id) {
                        viol!("T1/peer-contacted-twice", "next() handed out {} a second time", ids::hex_id(&id));
                    }
                    issued.insert(id, off);
                }
                QueryState::Waiting(None) | QueryState::WaitingAtCapacity => {
                    if finished {
                        viol!("T3/finished-not-absorbing", "next() returned {:?} after Finished", st);
                    }
                    let pending = issued.keys().filter(|i| !outcome.contains_key(*i)).count();
                    if pending == 0 {
                        viol!("T3/dead-state", "next() returned {:?} although no issued request is awaiting an outcome", st);
                    }
                }
            }
            // T2: parallelism bound over the ledger's in-flight set
            let inflight = issued
                .iter()
                .filter(|(i, t)| !outcome.contains_key(*i) && off < **t + peer_timeout)
                .count();
            let bound = if ever_stalled { par.max(k) } else { par };
            if inflight > bound {
                viol!(
                    if ever_stalled { "T2/parallelism-exceeded-after-stall" } else { "T2/parallelism-exceeded" },
                    "{} requests in flight, bound {} (parallelism {}, num_results {}, stalled seen: {})",
                    inflight, bound, par, k, ever_stalled
                );
            }
            st
        }};
    }

    // deliver an outcome with ledger update
    macro_rules! deliver {
        ($id:expr, $succ:expr, $ret:expr) => {{
            let id: Id = $id;
            let ret: Vec<(Id, u32)> = $ret;
            // Soundness (C04): a request has exactly one terminal outcome, so a success is never
            // delivered for a request that already failed. Excluded by construction, counted.
            if $succ && outcome.get(&id) == Some(&false) {
                stats.excluded_success_after_failure += 1;
                continue;
            }
            let acceptable = issued.contains_key(&id) && !outcome.contains_key(&id) && !finished;
            if !issued.contains_key(&id) || outcome.contains_key(&id) {
                stats.spurious_report = true;
            }
            if $succ {
                if acceptable {
                    if off >= issued[&id] + peer_timeout {
                        stats.late_success = true;
                    }
                    // closer, not yet known peer while at capacity?
                    let inflight = issued.iter().filter(|(i, _)| !outcome.contains_key(*i)).count();
                    let best = candidates.iter().map(|c| ids::xor(c, &target)).min();
                    for (rid, v) in &ret {
                        if !candidates.contains(rid) && Some(ids::xor(rid, &target)) < best && inflight > par {
                            stats.closer_peer_at_capacity = true;
                        }
                        candidates.insert(*rid);
                        if let Some(p) = pred {
                            // the machine keeps the flag of the FIRST report of an id
                            if p.eval(*v) {
                                matching_reports.insert(*rid);
                            }
                        }
                    }
                    accepted_success.insert(id);
                    outcome.insert(id, true);
                    stats.successes += 1;
                }
                m.on_success(&id, &ret);
            } else {
                if acceptable {
                    outcome.insert(id, false);
                    stats.failures += 1;
                }
                m.on_failure(&id);
            }
            if m.is_stalled() {
                ever_stalled = true;
                stats.stalled_reached = true;
            }
        }};
    }

    let pick = |class: PeerClass, sel: u16, issued: &BTreeMap<Id, Duration>, outcome: &HashMap<Id, bool>, candidates: &HashSet<Id>, off: Duration| -> Id {
        let pool: Vec<Id> = match class {
            PeerClass::InFlight => issued.iter().filter(|(i, t)| !outcome.contains_key(*i) && off < **t + peer_timeout).map(|(i, _)| *i).collect(),
            PeerClass::TimedOut => issued.iter().filter(|(i, t)| !outcome.contains_key(*i) && off >= **t + peer_timeout).map(|(i, _)| *i).collect(),
            PeerClass::Answered => {
                let mut v: Vec<Id> = outcome.keys().copied().collect();
                v.sort();
                v
            }
            PeerClass::NeverContacted => {
                let mut v: Vec<Id> = candidates.iter().filter(|c| !issued.contains_key(*c)).copied().collect();
                v.sort();
                v
            }
            PeerClass::Unknown => uni.iter().map(|(i, _)| *i).filter(|i| !candidates.contains(i)).collect(),
        };
        if pool.is_empty() {
            // fall back: any universe member
            uni[(sel as usize * uni.len()) >> 16].0
        } else {
            pool[(sel as usize * pool.len()) >> 16]
        }
    };

    for ev in &c.events {
        match ev {
            Ev::Next => {
                do_next!();
            }
            Ev::NextN(n) => {
                for _ in 0..*n {
                    do_next!();
                }
            }
            Ev::Success { class, sel, returned } => {
                let id = pick(*class, *sel, &issued, &outcome, &candidates, off);
                let ret: Vec<(Id, u32)> = returned
                    .iter()
                    .map(|(i, ver)| {
                        let idx = (*i as usize * uni.len()) >> 8;
                        (uni[idx].0, value_of(idx, *ver))
                    })
                    .collect();
                deliver!(id, true, ret);
            }
            Ev::Failure { class, sel } => {
                let id = pick(*class, *sel, &issued, &outcome, &candidates, off);
                deliver!(id, false, Vec::new());
            }
            Ev::Advance(dt) => off += dt.dur(),
        }
    }
    stats.finished_before_drain = finished;

    // ---- drain: every outstanding request gets its outcome, newly issued ones immediately
    let mut steps = 0usize;
    let limit = candidates.len() + 3;
    let mut failed_all = false;
    while !finished {
        steps += 1;
        if steps > limit {
            viol!("T4/no-termination-in-drain", "not Finished after {} next() calls in the drain phase ({} candidates)", steps - 1, candidates.len());
            return Outcome { violation: None, stats };
        }
        let st = do_next!();
        match st {
            QueryState::Finished => break,
            QueryState::Waiting(Some(p)) => {
                let id = p.raw();
                if c.drain_success {
                    deliver!(id, true, Vec::new());
                } else {
                    deliver!(id, false, Vec::new());
                }
            }
            QueryState::Waiting(None) | QueryState::WaitingAtCapacity => {
                let pend: Vec<Id> = issued.keys().filter(|i| !outcome.contains_key(*i)).copied().collect();
                if failed_all && pend.is_empty() {
                    viol!("T3/dead-state", "drain: next() keeps returning {:?} with nothing outstanding", st);
                }
                for id in pend {
                    deliver!(id, false, Vec::new());
                }
                failed_all = true;
            }
        }
    }
    // absorbing: a few more calls
    for _ in 0..2 {
        do_next!();
    }

    // ---- C10: result checks
    let all_issued = candidates.iter().all(|c| issued.contains_key(c));
    let ncand = candidates.len();
    let nissued = issued.len();
    let result = m.into_result();
    stats.result_len = result.len();
    stats.issued = nissued;
    stats.candidates = ncand;
    if result.len() > k {
        viol!("R1/too-many-results", "{} results, num_results {}", result.len(), k);
    }
    let mut prev: Option<Id> = None;
    for id in &result {
        let d = ids::xor(id, &target);
        if let Some(p) = prev {
            if d <= p {
                viol!("R1/not-strictly-increasing", "result not in strictly increasing distance (or duplicate) at {}", ids::hex_id(id));
            }
        }
        prev = Some(d);
        if !issued.contains_key(id) {
            viol!("R2/result-never-contacted", "result contains {} which was never handed out by next()", ids::hex_id(id));
        }
        if !accepted_success.contains(id) {
            viol!("R2/result-without-success", "result contains {} for which no success was delivered (while outstanding, before the finish)", ids::hex_id(id));
        }
        if pred.is_some() && !matching_reports.contains(id) {
            viol!("R3/result-never-matched-predicate", "result contains {} which was never reported with a value satisfying the predicate", ids::hex_id(id));
        }
    }
    if result.len() < k && !all_issued {
        let missing: Vec<String> = candidates.iter().filter(|c| !issued.contains_key(*c)).take(3).map(ids::hex_id).collect();
        viol!("R4/incomplete-without-contacting-all", "only {} < {} results although candidates {:?} were never contacted", result.len(), k, missing);
    }
    Outcome { violation: None, stats }
}
