//! Wire engine: 1..4 real `Handler`s on an in-memory datagram wire inside one paused,
//! single-threaded tokio runtime. The harness is the network (deliver / drop / duplicate / delay),
//! the clock, the applications behind every handler, and the attacker.

use crate::{
    ids::{self, Id},
    keys,
};
use discv5::{
    enr::{CombinedKey, EnrKey, NodeId},
    packet::{PacketKind, ProtocolIdentity},
    verif::{
        self as hv, packet_decode, HandlerIn, HandlerOut, HandlerSnapshot, Request, RequestBody, RequestId, Response,
        ResponseBody, VPacket, VirtualHandler, WhoAreYouRef,
    },
    ConfigBuilder, Enr, ListenConfig, NodeAddress, NodeContact,
};
use parking_lot::RwLock;
use serde::{Deserialize, Serialize};
use std::{
    collections::{BTreeMap, HashMap},
    net::{IpAddr, Ipv4Addr, Ipv6Addr, SocketAddr},
    sync::Arc,
    time::Duration,
};

pub const REQUEST_TIMEOUT_MS: u64 = 1000;
pub const N_ATTACKER_ADDRS: u8 = 3;

// ------------------------------------------------------------------------------------------
// ops
// ------------------------------------------------------------------------------------------

#[derive(Clone, Copy, Debug, PartialEq, Eq, Hash, Serialize, Deserialize)]
pub enum Body {
    Ping,
    FindNode0,
    FindNode(u8),
    Talk(u8),
}

#[derive(Clone, Copy, Debug, PartialEq, Eq, Hash, Serialize, Deserialize)]
pub enum Dt {
    Ms1,
    TimeoutFrac40,
    Timeout,
    TimeoutPlus,
    Timeout2_5,
    Long,
}

impl Dt {
    pub fn dur(&self) -> Duration {
        match self {
            Dt::Ms1 => Duration::from_millis(1),
            Dt::TimeoutFrac40 => Duration::from_millis(REQUEST_TIMEOUT_MS * 4 / 10),
            Dt::Timeout => Duration::from_millis(REQUEST_TIMEOUT_MS),
            Dt::TimeoutPlus => Duration::from_millis(REQUEST_TIMEOUT_MS + 50),
            Dt::Timeout2_5 => Duration::from_millis(REQUEST_TIMEOUT_MS * 5 / 2),
            Dt::Long => Duration::from_millis(REQUEST_TIMEOUT_MS * 12),
        }
    }
}

/// What the application knows about a peer when asked "who are you".
#[derive(Clone, Copy, Debug, PartialEq, Eq, Hash, Serialize, Deserialize)]
pub enum Know {
    Current,
    Older,
    Nothing,
}

/// Source address selector for adversarial injections.
#[derive(Clone, Copy, Debug, PartialEq, Eq, Hash, Serialize, Deserialize)]
pub enum AddrSel {
    Original,
    Attacker(u8),
    Node(u8),
    /// the original source IP with another port (a NAT re-mapping, or another process on that host)
    SameIpOtherPort(u8),
    /// the original source in its IPv4-mapped IPv6 form (same host, same port, other representation)
    MappedV6,
    /// the other UDP socket the original sender's record advertises (dual-stack records only;
    /// otherwise the original source)
    OtherAdvertised,
}

/// Which part of the datagram a mutation hits (in the unmasked domain where it matters).
#[derive(Clone, Copy, Debug, PartialEq, Eq, Hash, Serialize, Deserialize)]
pub enum Mutation {
    /// flip one bit; region selects IV / static header / nonce / auth-size / auth-data / ciphertext / tag
    FlipBit { region: u8, pos: u16, unmasked: bool },
    TruncateTo(u16),
    TruncateBy(u8),
    Extend(u8),
    InsertByte { pos: u16, val: u8 },
    DeleteByte { pos: u16 },
    /// header of this datagram + body of another one
    SpliceBody { other: u16 },
    /// iv of this + rest of the other
    SpliceIv { other: u16 },
    /// auth-data of the other datagram (same length) written into this one (unmasked domain)
    SwapAuthData { other: u16 },
    /// unmask with the original destination id and re-mask for another node id
    Remask { to: u8 },
    /// same unmasked header and body under a different IV (header re-masked accordingly)
    ReIv { seed: u8 },
    /// n bytes appended at the END of the auth-data (after the record of a handshake packet), with the
    /// auth-data size field fixed up and the header re-masked
    ExtendAuthData { n: u8 },
    /// handshake packet: replace the attached record (0 = strip it, 1 = the sender's older record,
    /// 2 = the sender's current record) leaving signature, ephemeral key and body untouched
    HandshakeRecord { variant: u8 },
}

#[derive(Clone, Copy, Debug, PartialEq, Eq, Hash, Serialize, Deserialize)]
pub enum XSel {
    /// the id of honest peer n (1..)
    Peer(u8),
    Random(u8),
    /// an identity with an Ed25519 key (a node this implementation cannot have sessions with, but
    /// whose validly signed record may be known to V or be presented by anybody)
    Ed(u8),
}

#[derive(Clone, Copy, Debug, PartialEq, Eq, Hash, Serialize, Deserialize)]
pub enum Signer {
    /// the attacker's key j
    Adv(u8),
    Garbage,
    Empty,
    Truncated,
    /// the claimed node's OWN key (never generated for attack scripts: this is the node itself speaking
    /// from a second endpoint, used by by-construction scenarios of multi-homed peers)
    Genuine,
    /// the id-signature of the newest genuine handshake packet the claimed node sent to V, as anybody
    /// on the path can read it (the handshake header is only masked with the destination's id)
    Observed,
    /// the attacker's key j, with bytes appended to the 64-byte signature (recovery ids 0 / 1 / 27 / 28
    /// as other signature formats carry them, two zero bytes, an arbitrary byte)
    AdvExtended(u8, u8),
}

#[derive(Clone, Copy, Debug, PartialEq, Eq, Hash, Serialize, Deserialize)]
pub enum EphKey {
    Valid,
    InvalidPoint,
    WrongLength,
}

#[derive(Clone, Copy, Debug, PartialEq, Eq, Hash, Serialize, Deserialize)]
pub enum SeqSel {
    Zero,
    BelowKnown,
    EqualKnown,
    AboveKnown,
    Max,
}

#[derive(Clone, Copy, Debug, PartialEq, Eq, Hash, Serialize, Deserialize)]
pub enum AddrField {
    MatchingSource,
    Other,
    Absent,
}

#[derive(Clone, Copy, Debug, PartialEq, Eq, Hash, Serialize, Deserialize)]
pub enum AttachedRecord {
    /// the attacker's own record (signed by attacker key j) with a chosen seq / address
    Own { key: u8, seq: SeqSel, addr: AddrField },
    /// the genuine record of the claimed peer
    Genuine,
    /// the record of another honest peer
    ThirdParty(u8),
    None,
}

#[derive(Clone, Copy, Debug, PartialEq, Eq, Hash, Serialize, Deserialize)]
pub enum ForgedBody {
    Ping,
    FindNode,
    Talk,
    Garbage,
}

#[derive(Clone, Debug, PartialEq, Eq, Hash, Serialize, Deserialize)]
pub enum Op {
    Submit { from: u8, to: u8, body: Body, with_record: bool },
    Deliver(u16),
    Drop(u16),
    Dup(u16),
    DeliverAll,
    Advance(Dt),
    /// answer a held who-are-you query of node `node`
    AnswerWru { node: u8, sel: u16, know: Know },
    /// answer a held request at node `node` with `packets` response packets
    Respond { node: u8, sel: u16, packets: u8 },
    Restart(u8),
    // ---- adversary
    Replay { d: u16, from: AddrSel },
    Mutate { d: u16, m: Mutation, from: AddrSel },
    Redirect { d: u16, to: u8 },
    /// undecryptable message claiming `x` from attacker address z
    Probe { x: XSel, z: u8 },
    ForgedHandshake {
        x: XSel,
        z: u8,
        signer: Signer,
        eph: EphKey,
        rec: AttachedRecord,
        body: ForgedBody,
        /// when x is an honest peer: present the handshake from THAT PEER'S address (an on-path
        /// adversary answering V's WHOAREYOU to the peer) instead of attacker address z
        #[serde(default)]
        spoof: bool,
    },
    ForgedMessage { x: XSel, z: u8, body: ForgedBody },
    /// WHOAREYOU sent to node `to` echoing the nonce of logged datagram d
    ForgedWhoAreYou { d: u16, from: AddrSel, to: u8, random_nonce: bool },
    /// V submits a request to the contact (public key of x, attacker address z)
    SubmitToAttacker { x: XSel, z: u8, with_record: bool, body: Body },
    /// an ordinary message packet in honest peer `peer`'s name, presented from that peer's address to
    /// node `to`, encrypted under a key anybody can guess (0: all-zero, 1: all-0xff, 2: 0x01..0x10)
    GuessedKeyMessage { peer: u8, to: u8, key: u8, body: ForgedBody },
    /// re-injection of the nth-newest handshake packet a node emitted (0 = the newest)
    ReplayHandshake { nth: u8, from: AddrSel },
    /// node's application answers a held request with a response of ANOTHER kind (request id intact):
    /// an empty NODES for a PING or TALK request, a PONG for a FINDNODE
    RespondOtherKind { node: u8, sel: u16 },
    /// node's application sends V a response that quotes the id of a request V sent to ANOTHER node
    /// (a response of the kind that request asks for)
    RespondWithForeignId { node: u8, sel: u16 },
    /// honest peer `peer` sends node `to` a message under its REAL session key whose plaintext does not
    /// decode (unknown message type / a FINDNODE with distance 300 / cut-off RLP), as a peer speaking
    /// another protocol revision would
    UndecodableMessage { peer: u8, to: u8, variant: u8 },
    /// V submits one request each to `n` contacts at distinct addresses where nobody listens
    SubmitToMany { n: u16 },
    /// node 0's application bans / un-bans honest peer `peer` (node id and, with `ip`, its IP address) in
    /// the process-wide ban list
    Ban { peer: u8, ip: bool, on: bool },
    /// a WHOAREYOU for the sel-th request node `node` has in flight, echoing that request's current
    /// nonce and coming from the address the request went to (whoever sends it)
    WhoAreYouForInflight { node: u8, sel: u16, handshaken_only: bool },
    /// node's application answers a held FINDNODE with ONE NODES packet that announces a total of 40
    /// (and nothing more follows)
    RespondHugeTotal { node: u8, sel: u16 },
}

#[derive(Clone, Copy, Debug, PartialEq, Eq, Hash, Serialize, Deserialize)]
pub enum AppMode {
    Immediate,
    Manual,
}

#[derive(Clone, Debug, PartialEq, Eq, Hash, Serialize, Deserialize)]
pub struct WireConfig {
    pub n_peers: u8,
    pub retries: u8,
    pub filter: bool,
    /// who-are-you answering per node (index 0 = V)
    pub wru_mode: Vec<AppMode>,
    pub wru_know: Vec<Know>,
    pub resp_mode: Vec<AppMode>,
    /// number of NODES packets an application answers a FINDNODE with (1..=5)
    pub nodes_packets: u8,
    /// local record seq of each node (1..=3)
    pub seqs: Vec<u8>,
    /// peers (index) behind NAT: their record advertises another UDP socket than the address their
    /// packets come from (handshakes with them end in UnverifiableEnr, the session still works)
    #[serde(default)]
    pub nat_peers: Vec<u8>,
    /// what a NAT peer's record advertises: 0 another ip and port, 1 the same ip with another port,
    /// 2 another ip with the same port, 3 no address at all (then the record is acceptable)
    #[serde(default)]
    pub nat_kind: u8,
    /// records additionally advertise an IPv6 UDP socket (2001:db8::1:<i>, port 9100+i) at which
    /// nobody listens: dual-stack records of nodes that are reached over IPv4
    #[serde(default)]
    pub dual_records: bool,
    /// peers (index) whose APPLICATION answers record requests (FINDNODE [0]) with a validly signed
    /// record of another identity that carries no address (a byzantine application behind an
    /// honest transport)
    #[serde(default)]
    pub foreign_enr_answer: Vec<u8>,
    /// session timeout of node 0 (V) in real milliseconds (default: the crate's 1 day)
    #[serde(default)]
    pub v_session_timeout_ms: Option<u64>,
    /// session cache capacity of node 0 (V) (default: the crate's 1000)
    #[serde(default)]
    pub v_session_capacity: Option<u8>,
    /// V listens on IPv4 and IPv6 (dual stack); the wire stays virtual
    #[serde(default)]
    pub v_dual_listen: bool,
}

// ------------------------------------------------------------------------------------------
// world
// ------------------------------------------------------------------------------------------

pub struct Node {
    pub key_idx: u32,
    pub key: CombinedKey,
    pub enr: Enr,
    pub older_enr: Enr,
    pub id: Id,
    pub addr: SocketAddr,
    pub vh: VirtualHandler,
    pub held_wru: Vec<WhoAreYouRef>,
    pub held_req: Vec<(NodeAddress, Request)>,
    pub restarts: u32,
}

#[derive(Clone, Debug)]
pub struct Datagram {
    pub idx: usize,
    pub step: usize,
    pub t_ms: u64,
    /// emitting node (None: injected by the adversary)
    pub from_node: Option<usize>,
    pub from_addr: SocketAddr,
    pub to_addr: SocketAddr,
    pub to_id: NodeId,
    pub bytes: Vec<u8>,
    /// decoded with the destination id (None if it does not decode)
    pub decoded: Option<(VPacket, Vec<u8>)>,
}

#[derive(Clone, Debug)]
pub struct EvRec {
    pub step: usize,
    pub t_ms: u64,
    pub node: usize,
    pub out: HandlerOut,
}

#[derive(Clone, Debug)]
pub struct Submitted {
    pub step: usize,
    pub t_ms: u64,
    pub from: usize,
    pub to_id: Id,
    pub to_addr: SocketAddr,
    pub id: RequestId,
    pub body: RequestBody,
    pub with_record: bool,
}

#[derive(Clone, Debug)]
pub struct Injection {
    pub step: usize,
    pub to_node: usize,
    pub from_addr: SocketAddr,
    pub bytes: Vec<u8>,
    /// index of the genuine logged datagram this is (a copy of), if byte-identical
    pub genuine_of: Option<usize>,
    /// what kind of adversarial manipulation produced it (None = plain delivery)
    pub manipulation: Option<String>,
}

pub struct World {
    pub cfg: WireConfig,
    pub nodes: Vec<Node>,
    pub log: Vec<Datagram>,
    pub pool: Vec<usize>,
    pub events: Vec<EvRec>,
    pub submitted: Vec<Submitted>,
    pub injections: Vec<Injection>,
    /// responses handed by an application to its handler: (node, destination, response)
    pub responses_given: Vec<(usize, NodeAddress, Response)>,
    pub requests_given: Vec<(usize, NodeAddress, Request)>,
    pub step: usize,
    pub start: tokio::time::Instant,
    pub next_req: u64,
    pub snaps: Vec<HandlerSnapshot>,
    pub prev_snaps: Vec<HandlerSnapshot>,
    /// all encryption keys ever seen in snapshots, per node
    pub keys_seen: Vec<Vec<[u8; 16]>>,
    pub attacker: Attacker,
    pub notes: Vec<String>,
}

#[derive(Default)]
pub struct Attacker {
    /// keys derivable by the attacker from its own forged handshakes: (claimed id, z, initiator key, recipient key)
    pub derived: Vec<(Id, u8, [u8; 16], [u8; 16])>,
    pub own_ids: Vec<Id>,
    pub forged_with_verifying_sig: u32,
}

pub fn node_addr(i: usize) -> SocketAddr {
    SocketAddr::new(IpAddr::V4(Ipv4Addr::new(10, 0, 0, 1 + i as u8)), 9000 + i as u16)
}

pub fn attacker_addr(z: u8) -> SocketAddr {
    SocketAddr::new(IpAddr::V4(Ipv4Addr::new(10, 66, 0, 1 + z % N_ATTACKER_ADDRS)), 7000 + (z % N_ATTACKER_ADDRS) as u16)
}

pub const N_ED_IDS: u8 = 2;

thread_local! {
    static ED_RECORDS: std::cell::RefCell<Vec<Enr>> = const { std::cell::RefCell::new(Vec::new()) };
}

/// The (one, cached) validly signed record of Ed25519 identity n; it advertises an address at which
/// nobody listens.
pub fn ed_record(n: u8) -> Enr {
    let n = n % N_ED_IDS;
    ED_RECORDS.with(|c| {
        let mut c = c.borrow_mut();
        if c.is_empty() {
            for i in 0..N_ED_IDS {
                let mut seed = [0x11u8 + i; 32];
                let k = CombinedKey::ed25519_from_bytes(&mut seed).expect("ed25519 key");
                let mut b = Enr::builder();
                b.seq(3).ip4(Ipv4Addr::new(10, 88, 0, 1 + i)).udp4(8800 + i as u16);
                c.push(b.build(&k).expect("ed25519 record"));
            }
        }
        c[n as usize].clone()
    })
}

pub fn attacker_key(j: u8) -> CombinedKey {
    keys::key(500 + (j % 3) as u32)
}

pub fn node_record(key: &CombinedKey, addr: Option<SocketAddr>, v6: Option<(Ipv6Addr, u16)>, seq: u64) -> Enr {
    let mut b = Enr::builder();
    b.seq(seq);
    if let Some((ip, port)) = v6 {
        b.ip6(ip).udp6(port);
    }
    if let Some(SocketAddr::V4(a)) = addr {
        b.ip4(*a.ip()).udp4(a.port());
    }
    b.build(key).expect("record")
}

async fn spawn_handler(key_idx: u32, enr: &Enr, addr: SocketAddr, cfg: &WireConfig) -> VirtualHandler {
    let is_v = addr == node_addr(0);
    let (ip, port) = match addr {
        SocketAddr::V4(a) => (*a.ip(), a.port()),
        _ => unreachable!(),
    };
    let listen = if is_v && cfg.v_dual_listen {
        ListenConfig::DualStack { ipv4: ip, ipv4_port: port, ipv6: Ipv6Addr::new(0x2001, 0xdb8, 0, 0, 0, 0, 1, 0), ipv6_port: 9100 }
    } else {
        ListenConfig::Ipv4 { ip, port }
    };
    let mut b = ConfigBuilder::new(listen);
    b.request_timeout(Duration::from_millis(REQUEST_TIMEOUT_MS)).request_retries(cfg.retries);
    if cfg.filter {
        b.enable_packet_filter();
    }
    if is_v {
        if let Some(ms) = cfg.v_session_timeout_ms {
            b.session_timeout(Duration::from_millis(ms));
        }
        if let Some(c) = cfg.v_session_capacity {
            b.session_cache_capacity(c as usize);
        }
    }
    let config = b.build();
    let key = keys::key(key_idx);
    discv5::verif::Handler::spawn_virtual(Arc::new(RwLock::new(enr.clone())), Arc::new(RwLock::new(key)), config)
        .await
        .expect("virtual handler")
}

impl World {
    pub async fn new(cfg: WireConfig) -> World {
        hv::reset_snapshots();
        // the ban list is process-wide: every case starts with an empty one
        *discv5::verif::PERMIT_BAN_LIST.write() = Default::default();
        let n = 1 + cfg.n_peers as usize;
        let mut nodes = Vec::new();
        for i in 0..n {
            let key_idx = 100 + i as u32;
            let key = keys::key(key_idx);
            let addr = node_addr(i);
            let seq = *cfg.seqs.get(i).unwrap_or(&2) as u64 + 1;
            let advertised = if cfg.nat_peers.contains(&(i as u8)) {
                match cfg.nat_kind % 4 {
                    0 => Some(SocketAddr::new(IpAddr::V4(Ipv4Addr::new(10, 99, 0, 1 + i as u8)), 4000 + i as u16)),
                    1 => Some(SocketAddr::new(addr.ip(), addr.port() + 1000)),
                    2 => Some(SocketAddr::new(IpAddr::V4(Ipv4Addr::new(10, 99, 0, 1 + i as u8)), addr.port())),
                    _ => None,
                }
            } else {
                Some(addr)
            };
            let v6 = if cfg.dual_records { Some((Ipv6Addr::new(0x2001, 0xdb8, 0, 0, 0, 0, 1, i as u16), 9100 + i as u16)) } else { None };
            let enr = node_record(&key, advertised, v6, seq);
            let older_enr = node_record(&key, advertised, v6, seq - 1);
            let id = enr.node_id().raw();
            let vh = spawn_handler(key_idx, &enr, addr, &cfg).await;
            nodes.push(Node { key_idx, key, enr, older_enr, id, addr, vh, held_wru: vec![], held_req: vec![], restarts: 0 });
        }
        let mut attacker = Attacker::default();
        for j in 0..3u8 {
            let k = attacker_key(j);
            let id: NodeId = k.public().into();
            attacker.own_ids.push(id.raw());
        }
        let mut w = World {
            cfg,
            nodes,
            log: vec![],
            pool: vec![],
            events: vec![],
            submitted: vec![],
            injections: vec![],
            responses_given: vec![],
            requests_given: vec![],
            step: 0,
            start: tokio::time::Instant::now(),
            next_req: 1,
            snaps: vec![HandlerSnapshot::default(); n],
            prev_snaps: vec![HandlerSnapshot::default(); n],
            keys_seen: vec![vec![]; n],
            attacker,
            notes: vec![],
        };
        w.settle().await;
        w
    }

    pub fn now_ms(&self) -> u64 {
        (tokio::time::Instant::now() - self.start).as_millis() as u64
    }

    pub fn node_by_addr(&self, a: &SocketAddr) -> Option<usize> {
        self.nodes.iter().position(|n| n.addr == *a)
    }

    pub fn is_attacker_addr(&self, a: &SocketAddr) -> bool {
        (0..N_ATTACKER_ADDRS).any(|z| attacker_addr(z) == *a)
    }

    pub fn xid(&self, x: &XSel) -> Id {
        match x {
            XSel::Peer(_) => self.nodes[self.xnode(x).unwrap()].id,
            XSel::Random(r) => {
                let mut b = [0x5Au8; 32];
                b[0] = 0xC0 | (*r & 0x0f);
                b[31] = *r;
                b
            }
            XSel::Ed(n) => ed_record(*n).node_id().raw(),
        }
    }

    pub fn xnode(&self, x: &XSel) -> Option<usize> {
        match x {
            XSel::Peer(p) => Some(1 + (*p as usize % (self.nodes.len() - 1).max(1))),
            XSel::Random(_) | XSel::Ed(_) => None,
        }
    }

    /// Lets every task run until the system is idle (the paused clock only advances when all
    /// tasks are idle), then drains outputs and lets the applications react; repeats until quiet.
    pub async fn settle(&mut self) {
        for _round in 0..64 {
            tokio::time::sleep(Duration::from_millis(1)).await;
            let progressed = self.drain();
            if !progressed {
                break;
            }
        }
        self.prev_snaps = std::mem::take(&mut self.snaps);
        self.snaps = self
            .nodes
            .iter()
            .map(|n| hv::snapshot(&ids::node_id(&n.id)).unwrap_or_default())
            .collect();
        for (i, s) in self.snaps.iter().enumerate() {
            for sess in &s.sessions {
                for k in [Some(sess.keys.0), sess.old_keys.map(|k| k.0)].into_iter().flatten() {
                    if !self.keys_seen[i].contains(&k) {
                        self.keys_seen[i].push(k);
                    }
                }
            }
        }
    }

    /// Collect emitted datagrams and handler events; immediate-mode applications react.
    fn drain(&mut self) -> bool {
        let mut progressed = false;
        let t = self.now_ms();
        for i in 0..self.nodes.len() {
            while let Ok((dst, bytes)) = self.nodes[i].vh.outbound.try_recv() {
                progressed = true;
                let decoded = packet_decode(&dst.node_id, ProtocolIdentity::default(), &bytes).ok();
                let idx = self.log.len();
                self.log.push(Datagram {
                    idx,
                    step: self.step,
                    t_ms: t,
                    from_node: Some(i),
                    from_addr: self.nodes[i].addr,
                    to_addr: dst.socket_addr,
                    to_id: dst.node_id,
                    bytes,
                    decoded,
                });
                self.pool.push(idx);
            }
            let mut outs = Vec::new();
            while let Ok(out) = self.nodes[i].vh.from_handler.try_recv() {
                outs.push(out);
            }
            for out in outs {
                progressed = true;
                self.events.push(EvRec { step: self.step, t_ms: t, node: i, out: out.clone() });
                self.app_react(i, out);
            }
        }
        progressed
    }

    fn know_record(&self, node: usize, about: &NodeId, know: Know) -> Option<Enr> {
        if let Some(n) = (0..N_ED_IDS).find(|n| ed_record(*n).node_id() == *about) {
            return if know == Know::Nothing { None } else { Some(ed_record(n)) };
        }
        let j = self.nodes.iter().position(|n| ids::node_id(&n.id) == *about)?;
        let _ = node;
        match know {
            Know::Current => Some(self.nodes[j].enr.clone()),
            Know::Older => Some(self.nodes[j].older_enr.clone()),
            Know::Nothing => None,
        }
    }

    fn app_react(&mut self, i: usize, out: HandlerOut) {
        match out {
            HandlerOut::WhoAreYou(r) => {
                if self.cfg.wru_mode.get(i).copied().unwrap_or(AppMode::Immediate) == AppMode::Immediate {
                    let know = self.cfg.wru_know.get(i).copied().unwrap_or(Know::Current);
                    let rec = self.know_record(i, &r.0.node_id, know);
                    let _ = self.nodes[i].vh.to_handler.send(HandlerIn::WhoAreYou(r, rec));
                } else {
                    self.nodes[i].held_wru.push(r);
                }
            }
            HandlerOut::Request(addr, req) => {
                if self.cfg.resp_mode.get(i).copied().unwrap_or(AppMode::Immediate) == AppMode::Immediate {
                    let k = self.cfg.nodes_packets.clamp(1, 5);
                    self.respond(i, addr, *req, k);
                } else {
                    self.nodes[i].held_req.push((addr, *req));
                }
            }
            _ => {}
        }
    }

    /// The application of node i answers a request with well-formed response(s).
    pub fn respond(&mut self, i: usize, addr: NodeAddress, req: Request, packets: u8) {
        let mut resps = Vec::new();
        match &req.body {
            RequestBody::Ping { .. } => {
                let port = std::num::NonZeroU16::new(addr.socket_addr.port()).unwrap_or(std::num::NonZeroU16::new(1).unwrap());
                resps.push(Response {
                    id: req.id.clone(),
                    body: ResponseBody::Pong { enr_seq: self.nodes[i].enr.seq(), ip: addr.socket_addr.ip(), port },
                });
            }
            RequestBody::FindNode { distances } => {
                let k = if distances == &vec![0] { 1 } else { packets.max(1) as u64 };
                for p in 0..k {
                    let mut nodes = Vec::new();
                    if p == 0 && distances.contains(&0) {
                        if self.cfg.foreign_enr_answer.contains(&(i as u8)) {
                            // record of another identity, no address fields
                            let k = attacker_key(0);
                            nodes.push(Enr::builder().seq(7).build(&k).expect("record"));
                        } else {
                            nodes.push(self.nodes[i].enr.clone());
                        }
                    }
                    resps.push(Response { id: req.id.clone(), body: ResponseBody::Nodes { total: k, nodes } });
                }
            }
            RequestBody::Talk { request, .. } => {
                let mut r = request.clone();
                r.reverse();
                resps.push(Response { id: req.id.clone(), body: ResponseBody::Talk { response: r } });
            }
        }
        for r in resps {
            self.responses_given.push((i, addr.clone(), r.clone()));
            let _ = self.nodes[i].vh.to_handler.send(HandlerIn::Response(addr.clone(), Box::new(r)));
        }
    }

    pub fn respond_other_kind(&mut self, i: usize, addr: NodeAddress, req: Request) {
        let body = match &req.body {
            RequestBody::FindNode { .. } => {
                let port = std::num::NonZeroU16::new(addr.socket_addr.port()).unwrap_or(std::num::NonZeroU16::new(1).unwrap());
                ResponseBody::Pong { enr_seq: self.nodes[i].enr.seq(), ip: addr.socket_addr.ip(), port }
            }
            _ => ResponseBody::Nodes { total: 1, nodes: vec![] },
        };
        let r = Response { id: req.id.clone(), body };
        self.responses_given.push((i, addr.clone(), r.clone()));
        let _ = self.nodes[i].vh.to_handler.send(HandlerIn::Response(addr, Box::new(r)));
    }

    pub fn make_body(&self, b: Body, from: usize) -> RequestBody {
        match b {
            Body::Ping => RequestBody::Ping { enr_seq: self.nodes[from].enr.seq() },
            Body::FindNode0 => RequestBody::FindNode { distances: vec![0] },
            Body::FindNode(d) => RequestBody::FindNode { distances: vec![256 - (d % 3) as u64, 255 - (d % 2) as u64] },
            Body::Talk(n) => RequestBody::Talk { protocol: b"vrf".to_vec(), request: vec![n; 1 + (n % 7) as usize] },
        }
    }

    pub fn fresh_request_id(&mut self) -> RequestId {
        let v = self.next_req;
        self.next_req += 1;
        // ids of 1..8 bytes, unique per world (distinct numeric values); every third id is padded with
        // leading zero bytes, as peers with fixed-width counters send them
        let be = v.to_be_bytes();
        let minimal = be.iter().take_while(|b| **b == 0).count().min(7);
        let skip = if v % 3 == 2 { minimal.saturating_sub(1 + (v as usize / 3) % 3) } else { minimal };
        RequestId(be[skip..].to_vec())
    }

    pub fn submit(&mut self, from: usize, contact: NodeContact, body: RequestBody, with_record: bool) -> RequestId {
        let id = self.fresh_request_id();
        let req = Request { id: id.clone(), body: body.clone() };
        let na = contact.node_address();
        self.submitted.push(Submitted {
            step: self.step,
            t_ms: self.now_ms(),
            from,
            to_id: na.node_id.raw(),
            to_addr: na.socket_addr,
            id: id.clone(),
            body,
            with_record,
        });
        self.requests_given.push((from, na, req.clone()));
        let _ = self.nodes[from].vh.to_handler.send(HandlerIn::Request(contact, Box::new(req)));
        id
    }

    /// Hand a datagram to the receive path of the node that owns `to_addr`.
    pub fn inject(&mut self, to_node: usize, from_addr: SocketAddr, bytes: Vec<u8>, genuine_of: Option<usize>, manipulation: Option<String>) {
        self.injections.push(Injection { step: self.step, to_node, from_addr, bytes: bytes.clone(), genuine_of, manipulation });
        let _ = self.nodes[to_node].vh.inbound.send((from_addr, bytes));
    }

    pub fn deliver_logged(&mut self, idx: usize) {
        let d = self.log[idx].clone();
        if let Some(to) = self.node_by_addr(&d.to_addr) {
            self.inject(to, d.from_addr, d.bytes, Some(idx), None);
        }
        // datagrams to addresses nobody owns (attacker addresses) just stay in the log
    }

    pub async fn restart(&mut self, i: usize) {
        let n = &self.nodes[i];
        let vh = spawn_handler(n.key_idx, &n.enr, n.addr, &self.cfg).await;
        let old = std::mem::replace(&mut self.nodes[i].vh, vh);
        let _ = old.exit.send(());
        self.nodes[i].held_wru.clear();
        self.nodes[i].held_req.clear();
        self.nodes[i].restarts += 1;
    }

    /// Events of the current step.
    pub fn step_events(&self) -> impl Iterator<Item = &EvRec> {
        let s = self.step;
        self.events.iter().rev().take_while(move |e| e.step == s)
    }

    pub fn step_injections(&self) -> impl Iterator<Item = &Injection> {
        let s = self.step;
        self.injections.iter().rev().take_while(move |e| e.step == s)
    }
}

pub fn sel<T>(v: &[T], s: u16) -> Option<usize> {
    if v.is_empty() {
        None
    } else {
        Some((s as usize * v.len()) >> 16)
    }
}

/// Position of the byte regions of a datagram whose header decodes: (start, end) per region.
pub fn regions(d: &Datagram) -> Vec<(usize, usize)> {
    let len = d.bytes.len();
    let ad = match &d.decoded {
        Some((_, aad)) => aad.len().saturating_sub(16 + 23),
        None => 0,
    };
    let hdr_end = (16 + 23 + ad).min(len);
    let tag_start = len.saturating_sub(16).max(hdr_end);
    vec![
        (0, 16.min(len)),                         // 0 IV
        (16.min(len), 25.min(len)),               // 1 protocol id/version/flag
        (25.min(len), 37.min(len)),               // 2 nonce
        (37.min(len), 39.min(len)),               // 3 auth-data size
        (39.min(len), hdr_end),                   // 4 auth-data
        (hdr_end, tag_start),                     // 5 ciphertext
        (tag_start, len),                         // 6 tag
    ]
}

/// Applies the header mask (AES-CTR keyed by the destination id) to bytes[16..hdr_end]; the same
/// operation masks and unmasks.
pub fn mask_header(dst: &Id, bytes: &mut [u8], hdr_end: usize) {
    if bytes.len() > 16 {
        let iv: [u8; 16] = bytes[..16].try_into().unwrap();
        let end = hdr_end.min(bytes.len()).max(16);
        crate::refmodel::packet::mask(dst, &iv, &mut bytes[16..end]);
    }
}

pub type Ledger = BTreeMap<String, u64>;
