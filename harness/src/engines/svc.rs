//! Service engine: a real `Discv5` + `Service` whose handler is a pair of channels scripted by the
//! harness (hook `start_scripted`). Paused single-threaded tokio runtime; `settle()` lets the
//! service react. Serves C11 C12 C14 C17 C20.

use crate::{ids, keys};
use discv5::{
    enr::{CombinedKey, NodeId},
    verif::{HandlerIn, HandlerOut, ScriptedHandler, PERMIT_BAN_LIST},
    ConfigBuilder, Discv5, Enr, Event, ListenConfig,
};
use std::{
    net::{IpAddr, Ipv4Addr, Ipv6Addr, SocketAddr},
    time::Duration,
};
use tokio::sync::mpsc;

#[derive(Clone, Copy, Debug, PartialEq, Eq, Hash, serde::Serialize, serde::Deserialize)]
pub enum Mode {
    Ip4,
    Ip6,
    Dual,
}

#[derive(Clone, Debug)]
pub struct SvcConfig {
    pub key_idx: u32,
    pub mode: Mode,
    pub ip_limit: bool,
    pub table_filter: Option<fn(&Enr) -> bool>,
    pub enr_peer_update_min: Option<usize>,
    pub vote_duration: Option<Duration>,
    pub max_nodes_response: Option<usize>,
    pub query_timeout: Option<Duration>,
    pub query_parallelism: Option<usize>,
    pub ping_interval: Option<Duration>,
    pub local_seq: u64,
    pub register_events: bool,
    pub incoming_bucket_limit: Option<usize>,
    /// None: the crate's default (1 h); Some(None): permanent bans; Some(Some(d)): bans of duration d
    pub ban_duration: Option<Option<Duration>>,
    /// hand the service pre-created sockets (ListenConfig::FromSockets, loopback, port 0) instead of
    /// addresses; the IP mode must be derived from which sockets exist
    pub from_sockets: bool,
    /// pad the local record (with a custom field) to exactly this many bytes (<= 300)
    pub local_record_size: Option<usize>,
    /// advertise (and listen on) this IPv4 UDP port instead of the default one
    pub local_port4: Option<u16>,
    /// the local record advertises no IP address / UDP port at all (the node still listens)
    pub local_no_socket: bool,
}

impl Default for SvcConfig {
    fn default() -> Self {
        SvcConfig {
            key_idx: 0,
            mode: Mode::Ip4,
            ip_limit: false,
            table_filter: None,
            enr_peer_update_min: None,
            vote_duration: None,
            max_nodes_response: None,
            query_timeout: None,
            query_parallelism: None,
            ping_interval: None,
            local_seq: 1,
            register_events: true,
            incoming_bucket_limit: None,
            ban_duration: None,
            from_sockets: false,
            local_record_size: None,
            local_port4: None,
            local_no_socket: false,
        }
    }
}

pub struct Svc {
    pub d: Discv5,
    pub h: ScriptedHandler,
    pub events: Option<mpsc::Receiver<Event>>,
    /// streams obtained by earlier `event_stream()` calls; the application keeps reading them
    pub events_earlier: Vec<mpsc::Receiver<Event>>,
    pub key: CombinedKey,
    pub id: ids::Id,
    pub addr4: SocketAddr,
    pub addr6: SocketAddr,
    /// everything the service sent to its handler so far (drained by `take_outbox`)
    pub outbox: Vec<HandlerIn>,
    pub event_log: Vec<Event>,
    /// when false, events stay in the service's event channel (to let it fill up)
    pub drain_events: bool,
}

pub fn svc_addr4(key_idx: u32) -> SocketAddr {
    SocketAddr::new(IpAddr::V4(Ipv4Addr::new(10, 3, (key_idx >> 8) as u8, (key_idx % 250 + 1) as u8)), 9000 + (key_idx % 1000) as u16)
}

pub fn svc_addr6(key_idx: u32) -> SocketAddr {
    SocketAddr::new(IpAddr::V6(Ipv6Addr::new(0x2001, 0xdb8, 0, 3, 0, 0, (key_idx >> 16) as u16, key_idx as u16)), 9000 + (key_idx % 1000) as u16)
}

/// A record for pool key `key_idx` with the address fields of the given shape.
#[derive(Clone, Copy, Debug, PartialEq, Eq, Hash, serde::Serialize, serde::Deserialize)]
pub enum Shape {
    V4,
    V6,
    Both,
    NoAddr,
    /// IPv4-mapped address in the ip6 field only
    MappedV6,
    /// carries a marker field (rejected by the marker filter)
    V4Marked,
    /// IPv4 with an odd UDP port (rejected by the even-port filter)
    V4OddPort,
}

thread_local! {
    static SHAPED: std::cell::RefCell<std::collections::HashMap<(u32, u64, Shape), Enr>> = std::cell::RefCell::new(std::collections::HashMap::new());
}

/// Cached: a node signs one record per sequence number (ECDSA signatures are randomised, so
/// building "the same" record twice would yield two different records with one seq).
pub fn shaped_record(key_idx: u32, seq: u64, shape: Shape) -> Enr {
    if let Some(e) = SHAPED.with(|m| m.borrow().get(&(key_idx, seq, shape)).cloned()) {
        return e;
    }
    let e = shaped_record_uncached(key_idx, seq, shape);
    SHAPED.with(|m| m.borrow_mut().insert((key_idx, seq, shape), e.clone()));
    e
}

fn shaped_record_uncached(key_idx: u32, seq: u64, shape: Shape) -> Enr {
    let k = keys::key(key_idx);
    let a4 = svc_addr4(key_idx);
    let a6 = svc_addr6(key_idx);
    let mut b = Enr::builder();
    b.seq(seq);
    let v4 = |b: &mut discv5::enr::Builder<CombinedKey>, port_odd: bool| {
        if let SocketAddr::V4(a) = a4 {
            let port = if port_odd { a.port() | 1 } else { a.port() & !1 };
            b.ip4(*a.ip()).udp4(port);
        }
    };
    let v6 = |b: &mut discv5::enr::Builder<CombinedKey>| {
        if let SocketAddr::V6(a) = a6 {
            b.ip6(*a.ip()).udp6(a.port());
        }
    };
    match shape {
        Shape::V4 => v4(&mut b, false),
        Shape::V6 => v6(&mut b),
        Shape::Both => {
            v4(&mut b, false);
            v6(&mut b);
        }
        Shape::NoAddr => {}
        Shape::MappedV6 => {
            if let SocketAddr::V4(a) = a4 {
                b.ip6(a.ip().to_ipv6_mapped()).udp6(a.port());
            }
        }
        Shape::V4Marked => {
            v4(&mut b, false);
            b.add_value("mark", &1u8);
        }
        Shape::V4OddPort => v4(&mut b, true),
    }
    b.build(&k).expect("record")
}

/// The UDP socket of a shaped record in the given address family.
pub fn shaped_addr(key_idx: u32, shape: Shape, v6: bool) -> Option<SocketAddr> {
    let e = shaped_record(key_idx, 1, shape);
    if v6 {
        e.udp6_socket().map(SocketAddr::V6)
    } else {
        e.udp4_socket().map(SocketAddr::V4)
    }
}

impl Svc {
    pub async fn new(cfg: SvcConfig) -> Svc {
        let key = keys::key(cfg.key_idx);
        let mut a4 = svc_addr4(cfg.key_idx);
        if let Some(p) = cfg.local_port4 {
            a4.set_port(p);
        }
        let a6 = svc_addr6(cfg.key_idx);
        let (listen, enr) = {
            let mut b = Enr::builder();
            b.seq(cfg.local_seq);
            let (ip4, p4) = match a4 {
                SocketAddr::V4(a) => (*a.ip(), a.port()),
                _ => unreachable!(),
            };
            let (ip6, p6) = match a6 {
                SocketAddr::V6(a) => (*a.ip(), a.port()),
                _ => unreachable!(),
            };
            let listen = match cfg.mode {
                Mode::Ip4 => {
                    b.ip4(ip4).udp4(p4);
                    ListenConfig::Ipv4 { ip: ip4, port: p4 }
                }
                Mode::Ip6 => {
                    b.ip6(ip6).udp6(p6);
                    ListenConfig::Ipv6 { ip: ip6, port: p6 }
                }
                Mode::Dual => {
                    b.ip4(ip4).udp4(p4).ip6(ip6).udp6(p6);
                    ListenConfig::DualStack { ipv4: ip4, ipv4_port: p4, ipv6: ip6, ipv6_port: p6 }
                }
            };
            if cfg.local_no_socket {
                b = Enr::builder();
                b.seq(cfg.local_seq);
            }
            let mut e = b.build(&key).expect("local record");
            if let Some(target) = cfg.local_record_size {
                // grow a custom field until the record has exactly the wanted size (if reachable)
                let mut pad = target.min(300).saturating_sub(e.size());
                loop {
                    let mut t = e.clone();
                    if t.insert("pad", &vec![0xEEu8; pad].as_slice(), &key).is_ok() && t.size() <= target.min(300) {
                        e = t;
                        break;
                    }
                    if pad == 0 {
                        break;
                    }
                    pad -= 1;
                }
            }
            (listen, e)
        };
        let listen = if cfg.from_sockets {
            let v4 = match cfg.mode {
                Mode::Ip4 | Mode::Dual => tokio::net::UdpSocket::bind((Ipv4Addr::LOCALHOST, 0)).await.ok().map(std::sync::Arc::new),
                Mode::Ip6 => None,
            };
            let v6 = match cfg.mode {
                Mode::Ip6 | Mode::Dual => tokio::net::UdpSocket::bind((Ipv6Addr::LOCALHOST, 0)).await.ok().map(std::sync::Arc::new),
                Mode::Ip4 => None,
            };
            let complete = match cfg.mode {
                Mode::Ip4 => v4.is_some(),
                Mode::Ip6 => v6.is_some(),
                Mode::Dual => v4.is_some() && v6.is_some(),
            };
            if complete {
                ListenConfig::FromSockets { ipv4: v4, ipv6: v6 }
            } else {
                listen
            }
        } else {
            listen
        };
        let mut cb = ConfigBuilder::new(listen);
        if cfg.ip_limit {
            cb.ip_limit();
        }
        if let Some(f) = cfg.table_filter {
            cb.table_filter(f);
        }
        if let Some(m) = cfg.enr_peer_update_min {
            cb.enr_peer_update_min(m);
        }
        if let Some(v) = cfg.vote_duration {
            cb.vote_duration(v);
        }
        if let Some(m) = cfg.max_nodes_response {
            cb.max_nodes_response(m);
        }
        if let Some(p) = cfg.query_parallelism {
            cb.query_parallelism(p);
        }
        if let Some(q) = cfg.query_timeout {
            cb.query_timeout(q);
        }
        if let Some(p) = cfg.ping_interval {
            cb.ping_interval(p);
        }
        if let Some(l) = cfg.incoming_bucket_limit {
            cb.incoming_bucket_limit(l);
        }
        if let Some(b) = cfg.ban_duration {
            cb.ban_duration(b);
        }
        cb.auto_nat_listen_duration(None);
        let config = cb.build();
        let id = enr.node_id().raw();
        let mut d = Discv5::new(enr, keys::key(cfg.key_idx), config).expect("discv5");
        let h = d.start_scripted().await.expect("scripted start");
        let mut s = Svc { d, h, events: None, events_earlier: vec![], key, id, addr4: a4, addr6: a6, outbox: vec![], event_log: vec![], drain_events: true };
        if cfg.register_events {
            let fut = s.d.event_stream();
            let rx = fut.await.expect("event stream");
            s.events = Some(rx);
        }
        s.settle().await;
        s
    }

    pub fn node_id(&self) -> NodeId {
        ids::node_id(&self.id)
    }

    /// Let the service react, then drain what it sent to its handler and its events.
    pub async fn settle(&mut self) {
        for _ in 0..8 {
            tokio::time::sleep(Duration::from_millis(1)).await;
            let mut progressed = false;
            while let Ok(m) = self.h.from_service.try_recv() {
                self.outbox.push(m);
                progressed = true;
            }
            if self.drain_events {
                for rx in self.events_earlier.iter_mut().chain(self.events.as_mut()) {
                    while let Ok(e) = rx.try_recv() {
                        self.event_log.push(e);
                        progressed = true;
                    }
                }
            }
            if !progressed {
                break;
            }
        }
    }

    /// The application asks for the event stream once more (`Discv5::event_stream`) and keeps reading
    /// the stream(s) it already had.
    pub async fn resubscribe(&mut self) {
        let fut = self.d.event_stream();
        if let Ok(rx) = fut.await {
            if let Some(old) = self.events.replace(rx) {
                self.events_earlier.push(old);
            }
        }
        self.settle().await;
    }

    pub fn take_outbox(&mut self) -> Vec<HandlerIn> {
        std::mem::take(&mut self.outbox)
    }

    pub fn take_events(&mut self) -> Vec<Event> {
        std::mem::take(&mut self.event_log)
    }

    pub async fn inject(&mut self, out: HandlerOut) {
        let _ = self.h.to_service.send(out).await;
        self.settle().await;
    }
}

pub fn reset_globals() {
    *PERMIT_BAN_LIST.write() = Default::default();
}

pub fn run_blocking<F: std::future::Future<Output = T>, T>(f: F) -> T {
    let rt = tokio::runtime::Builder::new_current_thread().enable_all().start_paused(true).build().expect("runtime");
    let out = rt.block_on(f);
    drop(rt);
    out
}
