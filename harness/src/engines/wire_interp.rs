//! Interpreter for wire-engine ops + the oracle plumbing shared by C01 C02 C03 C04 C13 C15 C19.

use super::wire::*;
use crate::{ids, runner::CaseReport};
use discv5::{
    enr::{EnrKey, NodeId},
    packet::{PacketKind, ProtocolIdentity},
    verif::{self as hv, packet_authenticated_data, packet_encode, HandlerIn, Request, RequestBody, RequestId, Response, ResponseBody, VPacket},
    Enr, NodeAddress, NodeContact,
};
use std::{
    net::{IpAddr, Ipv4Addr, SocketAddr},
    time::Duration,
};

pub trait Oracle {
    /// Called after every micro-step (one injection / one app action / one clock slice).
    fn after_step(&mut self, w: &World, op: &Op) -> Option<(String, String)>;
    /// Called once after the drain phase.
    fn finish(&mut self, _w: &World) -> Option<(String, String)> {
        None
    }
    fn report(&self, _w: &World, _rep: &mut CaseReport) {}
}

#[derive(Clone, Copy, Debug, PartialEq, Eq, Hash, serde::Serialize, serde::Deserialize)]
pub enum Drain {
    None,
    /// faults stop, everything in flight is delivered, applications answer everything
    Answering,
    /// faults stop, the network goes silent
    Silent,
}

fn prng(step: usize, salt: u64, n: usize) -> Vec<u8> {
    let mut x = (step as u64).wrapping_mul(0x9E3779B97F4A7C15) ^ salt.wrapping_mul(0xD6E8FEB86659FD93);
    let mut out = Vec::with_capacity(n + 8);
    while out.len() < n {
        x = x.wrapping_add(0x9E3779B97F4A7C15);
        let mut z = x;
        z = (z ^ (z >> 30)).wrapping_mul(0xBF58476D1CE4E5B9);
        z = (z ^ (z >> 27)).wrapping_mul(0x94D049BB133111EB);
        z ^= z >> 31;
        out.extend_from_slice(&z.to_le_bytes());
    }
    out.truncate(n);
    out
}

fn arr<const N: usize>(v: Vec<u8>) -> [u8; N] {
    let mut a = [0u8; N];
    a.copy_from_slice(&v[..N]);
    a
}

fn addr_of(w: &World, s: AddrSel, original: SocketAddr) -> SocketAddr {
    match s {
        AddrSel::Original => original,
        AddrSel::Attacker(z) => attacker_addr(z),
        AddrSel::Node(k) => w.nodes[k as usize % w.nodes.len()].addr,
        AddrSel::SameIpOtherPort(d) => {
            let mut a = original;
            a.set_port(original.port().wrapping_add(1 + d as u16 % 50));
            a
        }
        AddrSel::MappedV6 => match original {
            SocketAddr::V4(a) => SocketAddr::new(std::net::IpAddr::V6(a.ip().to_ipv6_mapped()), a.port()),
            other => other,
        },
        AddrSel::OtherAdvertised => match w.node_by_addr(&original).and_then(|i| w.nodes[i].enr.udp6_socket()) {
            Some(a6) => SocketAddr::V6(a6),
            None => original,
        },
    }
}

/// Applies a mutation to a logged datagram. Returns (bytes, destination node override).
pub fn mutate(w: &World, d: &Datagram, m: &Mutation) -> (Vec<u8>, Option<usize>) {
    let mut b = d.bytes.clone();
    let dst: ids::Id = d.to_id.raw();
    let regs = regions(d);
    let hdr_end = regs[4].1;
    match m {
        Mutation::FlipBit { region, pos, unmasked } => {
            let (s, e) = regs[*region as usize % regs.len()];
            if e > s {
                let bit = (*pos as usize * (e - s) * 8) >> 16;
                let idx = s + bit / 8;
                if *unmasked && idx >= 16 && idx < hdr_end {
                    mask_header(&dst, &mut b, hdr_end);
                    b[idx] ^= 1 << (bit % 8);
                    mask_header(&dst, &mut b, hdr_end);
                } else {
                    b[idx] ^= 1 << (bit % 8);
                }
            }
        }
        Mutation::TruncateTo(n) => b.truncate(*n as usize % (b.len() + 1)),
        Mutation::TruncateBy(n) => {
            let l = b.len().saturating_sub(*n as usize);
            b.truncate(l)
        }
        Mutation::Extend(n) => b.extend_from_slice(&prng(d.idx, 3, *n as usize)),
        Mutation::InsertByte { pos, val } => {
            let i = (*pos as usize * (b.len() + 1)) >> 16;
            b.insert(i, *val);
        }
        Mutation::DeleteByte { pos } => {
            if !b.is_empty() {
                let i = (*pos as usize * b.len()) >> 16;
                b.remove(i);
            }
        }
        Mutation::SpliceBody { other } => {
            if let Some(o) = sel(&w.log, *other).map(|i| &w.log[i]) {
                let oh = regions(o)[4].1;
                b.truncate(hdr_end);
                b.extend_from_slice(&o.bytes[oh.min(o.bytes.len())..]);
            }
        }
        Mutation::SpliceIv { other } => {
            if let Some(o) = sel(&w.log, *other).map(|i| &w.log[i]) {
                if o.bytes.len() >= 16 && b.len() >= 16 {
                    let mut n = b[..16].to_vec();
                    n.extend_from_slice(&o.bytes[16..]);
                    b = n;
                }
            }
        }
        Mutation::SwapAuthData { other } => {
            if let Some(o) = sel(&w.log, *other).map(|i| &w.log[i]) {
                let oregs = regions(o);
                let (os, oe) = oregs[4];
                let (s, e) = regs[4];
                if oe - os == e - s && e > s {
                    let mut ob = o.bytes.clone();
                    mask_header(&o.to_id.raw(), &mut ob, oe);
                    mask_header(&dst, &mut b, hdr_end);
                    b[s..e].copy_from_slice(&ob[os..oe]);
                    mask_header(&dst, &mut b, hdr_end);
                }
            }
        }
        Mutation::ReIv { seed } => {
            if let Some((p, _)) = &d.decoded {
                let mut p = p.clone();
                p.iv ^= 1u128 << (*seed % 128);
                b = packet_encode(p, &d.to_id);
            }
        }
        Mutation::ExtendAuthData { n } => {
            if d.decoded.is_some() && hdr_end >= 39 && b.len() >= hdr_end {
                mask_header(&dst, &mut b, hdr_end);
                let extra = prng(d.idx, 5, 1 + *n as usize % 32);
                let new_size = (hdr_end - 39 + extra.len()) as u16;
                b[37..39].copy_from_slice(&new_size.to_be_bytes());
                let tail = b.split_off(hdr_end);
                b.extend_from_slice(&extra);
                let new_end = b.len();
                b.extend_from_slice(&tail);
                mask_header(&dst, &mut b, new_end);
            }
        }
        Mutation::HandshakeRecord { variant } => {
            if let Some((p, _)) = &d.decoded {
                if let PacketKind::Handshake { src_id, id_nonce_sig, ephem_pubkey, .. } = &p.kind {
                    let sender = w.nodes.iter().find(|n| ids::node_id(&n.id) == *src_id);
                    let rec = match (variant % 3, sender) {
                        (1, Some(n)) => Some(n.older_enr.clone()),
                        (2, Some(n)) => Some(n.enr.clone()),
                        _ => None,
                    };
                    let mut p2 = p.clone();
                    p2.kind = PacketKind::Handshake {
                        src_id: *src_id,
                        id_nonce_sig: id_nonce_sig.clone(),
                        ephem_pubkey: ephem_pubkey.clone(),
                        enr_record: rec,
                    };
                    b = packet_encode(p2, &d.to_id);
                }
            }
        }
        Mutation::Remask { to } => {
            let t = *to as usize % w.nodes.len();
            mask_header(&dst, &mut b, hdr_end);
            mask_header(&w.nodes[t].id, &mut b, hdr_end);
            return (b, Some(t));
        }
    }
    (b, None)
}

fn forged_plain(body: ForgedBody, step: usize) -> Vec<u8> {
    let id = RequestId(vec![0xAA, step as u8]);
    match body {
        ForgedBody::Ping => Request { id, body: RequestBody::Ping { enr_seq: 1 } }.encode(),
        ForgedBody::FindNode => Request { id, body: RequestBody::FindNode { distances: vec![0, 256] } }.encode(),
        ForgedBody::Talk => Request { id, body: RequestBody::Talk { protocol: b"evil".to_vec(), request: b"x".to_vec() } }.encode(),
        ForgedBody::Garbage => prng(step, 11, 40),
    }
}

/// The seq V's application would report for X when asked (None = unknown).
fn known_seq(w: &World, x: &XSel) -> Option<u64> {
    if let XSel::Ed(n) = x {
        return if w.cfg.wru_know.first().copied() == Some(Know::Nothing) { None } else { Some(ed_record(*n).seq()) };
    }
    let j = w.xnode(x)?;
    match w.cfg.wru_know.first().copied().unwrap_or(Know::Current) {
        Know::Current => Some(w.nodes[j].enr.seq()),
        Know::Older => Some(w.nodes[j].older_enr.seq()),
        Know::Nothing => None,
    }
}

fn attacker_record(w: &World, key: u8, seq: SeqSel, addr: AddrField, z: u8, x: &XSel) -> Enr {
    let k = attacker_key(key);
    let known = known_seq(w, x).unwrap_or(2);
    let s = match seq {
        SeqSel::Zero => 0,
        SeqSel::BelowKnown => known.saturating_sub(1),
        SeqSel::EqualKnown => known,
        SeqSel::AboveKnown => known + 1,
        SeqSel::Max => u64::MAX,
    };
    let mut b = Enr::builder();
    b.seq(s);
    match addr {
        AddrField::MatchingSource => {
            if let SocketAddr::V4(a) = attacker_addr(z) {
                b.ip4(*a.ip()).udp4(a.port());
            }
        }
        AddrField::Other => {
            b.ip4(Ipv4Addr::new(10, 77, 0, 1)).udp4(1);
        }
        AddrField::Absent => {}
    }
    b.build(&k).expect("attacker record")
}

/// Executes one elementary action (no settling). Returns false if the op was a no-op.
pub fn act(w: &mut World, op: &Op) -> bool {
    let n = w.nodes.len();
    match op {
        Op::Submit { from, to, body, with_record } => {
            let f = *from as usize % n;
            let mut t = *to as usize % n;
            if t == f {
                t = (t + 1) % n;
            }
            let rb = w.make_body(*body, f);
            let contact = NodeContact::new(
                w.nodes[t].key.public(),
                w.nodes[t].addr,
                if *with_record { Some(w.nodes[t].enr.clone()) } else { None },
            );
            w.submit(f, contact, rb, *with_record);
            true
        }
        Op::Deliver(s) => match sel(&w.pool, *s) {
            Some(i) => {
                let idx = w.pool.remove(i);
                w.deliver_logged(idx);
                true
            }
            None => false,
        },
        Op::Drop(s) => match sel(&w.pool, *s) {
            Some(i) => {
                let idx = w.pool.remove(i);
                w.notes.push(format!("drop:{idx}"));
                true
            }
            None => false,
        },
        Op::Dup(s) => match sel(&w.pool, *s) {
            Some(i) => {
                let idx = w.pool[i];
                w.deliver_logged(idx);
                true
            }
            None => false,
        },
        Op::DeliverAll | Op::Advance(_) | Op::Restart(_) => unreachable!("handled by the driver"),
        Op::AnswerWru { node, sel: s, know } => {
            let i = *node as usize % n;
            match sel(&w.nodes[i].held_wru, *s) {
                Some(k) => {
                    let r = w.nodes[i].held_wru.remove(k);
                    let about = r.0.node_id;
                    let rec = w.nodes.iter().position(|x| ids::node_id(&x.id) == about).and_then(|j| match know {
                        Know::Current => Some(w.nodes[j].enr.clone()),
                        Know::Older => Some(w.nodes[j].older_enr.clone()),
                        Know::Nothing => None,
                    });
                    let _ = w.nodes[i].vh.to_handler.send(HandlerIn::WhoAreYou(r, rec));
                    true
                }
                None => false,
            }
        }
        Op::Respond { node, sel: s, packets } => {
            let i = *node as usize % n;
            match sel(&w.nodes[i].held_req, *s) {
                Some(k) => {
                    let (addr, req) = w.nodes[i].held_req.remove(k);
                    w.respond(i, addr, req, (*packets).clamp(1, 5));
                    true
                }
                None => false,
            }
        }
        Op::RespondHugeTotal { node, sel: s } => {
            let i = *node as usize % n;
            let cands: Vec<usize> = w.nodes[i].held_req.iter().enumerate().filter(|(_, (_, r))| matches!(r.body, RequestBody::FindNode { .. })).map(|(k, _)| k).collect();
            match sel(&cands, *s) {
                Some(k) => {
                    let (addr, req) = w.nodes[i].held_req.remove(cands[k]);
                    let r = Response { id: req.id.clone(), body: ResponseBody::Nodes { total: 40, nodes: vec![] } };
                    w.responses_given.push((i, addr.clone(), r.clone()));
                    let _ = w.nodes[i].vh.to_handler.send(HandlerIn::Response(addr, Box::new(r)));
                    true
                }
                None => false,
            }
        }
        Op::RespondOtherKind { node, sel: s } => {
            let i = *node as usize % n;
            match sel(&w.nodes[i].held_req, *s) {
                Some(k) => {
                    let (addr, req) = w.nodes[i].held_req.remove(k);
                    w.respond_other_kind(i, addr, req);
                    true
                }
                None => false,
            }
        }
        Op::RespondWithForeignId { node, sel: s } => {
            let q = *node as usize % n;
            if q == 0 {
                return false;
            }
            let q_addr = w.nodes[q].addr;
            let cands: Vec<usize> = w.submitted.iter().enumerate().filter(|(_, x)| x.from == 0 && x.to_addr != q_addr).map(|(i, _)| i).collect();
            let Some(k) = sel(&cands, *s) else { return false };
            let sub = w.submitted[cands[k]].clone();
            let body = match &sub.body {
                RequestBody::Ping { .. } => ResponseBody::Pong { enr_seq: w.nodes[q].enr.seq(), ip: w.nodes[0].addr.ip(), port: std::num::NonZeroU16::new(w.nodes[0].addr.port()).unwrap_or(std::num::NonZeroU16::new(1).unwrap()) },
                RequestBody::FindNode { .. } => ResponseBody::Nodes { total: 1, nodes: vec![] },
                RequestBody::Talk { .. } => ResponseBody::Talk { response: vec![0x51, 0x51] },
            };
            let r = Response { id: sub.id.clone(), body };
            let addr = NodeAddress::new(w.nodes[0].addr, ids::node_id(&w.nodes[0].id));
            w.responses_given.push((q, addr.clone(), r.clone()));
            let _ = w.nodes[q].vh.to_handler.send(HandlerIn::Response(addr, Box::new(r)));
            true
        }
        Op::Replay { d, from } => match sel(&w.log, *d) {
            Some(i) => {
                let dg = w.log[i].clone();
                let Some(to) = w.node_by_addr(&dg.to_addr) else { return false };
                let fa = addr_of(w, *from, dg.from_addr);
                w.inject(to, fa, dg.bytes, Some(i), Some(if fa == dg.from_addr { "replay".into() } else { "replay-from-other-address".into() }));
                true
            }
            None => false,
        },
        Op::ReplayHandshake { nth, from } => {
            let hs: Vec<usize> = w
                .log
                .iter()
                .filter(|d| d.from_node.is_some() && matches!(d.decoded.as_ref().map(|p| &p.0.kind), Some(PacketKind::Handshake { .. })))
                .map(|d| d.idx)
                .collect();
            let Some(i) = hs.iter().rev().nth(*nth as usize).copied() else { return false };
            let dg = w.log[i].clone();
            let Some(to) = w.node_by_addr(&dg.to_addr) else { return false };
            let fa = addr_of(w, *from, dg.from_addr);
            w.inject(to, fa, dg.bytes, Some(i), Some(if fa == dg.from_addr { "replay".into() } else { "replay-from-other-address".into() }));
            true
        }
        Op::Mutate { d, m, from } => match sel(&w.log, *d) {
            Some(i) => {
                let dg = w.log[i].clone();
                let (bytes, to_override) = mutate(w, &dg, m);
                let Some(to) = to_override.or_else(|| w.node_by_addr(&dg.to_addr)) else { return false };
                let fa = addr_of(w, *from, dg.from_addr);
                let same = bytes == dg.bytes && Some(to) == w.node_by_addr(&dg.to_addr);
                w.inject(to, fa, bytes, if same { Some(i) } else { None }, Some(format!("mutate:{m:?}")));
                true
            }
            None => false,
        },
        Op::Redirect { d, to } => match sel(&w.log, *d) {
            Some(i) => {
                let dg = w.log[i].clone();
                let t = *to as usize % n;
                if Some(t) == w.node_by_addr(&dg.to_addr) {
                    return false;
                }
                w.inject(t, dg.from_addr, dg.bytes, None, Some("redirect".into()));
                true
            }
            None => false,
        },
        Op::Probe { x, z } => {
            let xid = w.xid(x);
            let vp = VPacket {
                iv: u128::from_be_bytes(arr::<16>(prng(w.step, 21, 16))),
                message_nonce: arr::<12>(prng(w.step, 22, 12)),
                protocol_identity: ProtocolIdentity::default(),
                kind: PacketKind::Message { src_id: ids::node_id(&xid) },
                message: prng(w.step, 23, 44),
            };
            let bytes = packet_encode(vp, &ids::node_id(&w.nodes[0].id));
            w.inject(0, attacker_addr(*z), bytes, None, Some("probe".into()));
            true
        }
        Op::ForgedHandshake { x, z, signer, eph, rec, body, spoof } => {
            let xid = w.xid(x);
            let spoofed = if *spoof { w.xnode(x).map(|j| w.nodes[j].addr) } else { None };
            let za = spoofed.unwrap_or(attacker_addr(*z));
            // the last WHOAREYOU V sent to (X, Z)
            let Some(wru) = w.log.iter().rev().find(|d| {
                d.from_node == Some(0)
                    && d.to_addr == za
                    && d.to_id.raw() == xid
                    && matches!(d.decoded.as_ref().map(|p| &p.0.kind), Some(PacketKind::WhoAreYou { .. }))
            }) else {
                return false;
            };
            let challenge = wru.decoded.as_ref().unwrap().1.clone();
            let v = &w.nodes[0];
            let vcontact = NodeContact::new(v.key.public(), v.addr, Some(v.enr.clone()));
            let Ok((ikey, rkey, eph_valid)) = hv::generate_session_keys(&ids::node_id(&xid), &vcontact, &challenge) else { return false };
            let eph_bytes = match eph {
                EphKey::Valid => eph_valid.clone(),
                EphKey::InvalidPoint => {
                    let mut e = vec![0x02];
                    e.extend_from_slice(&[0xff; 32]);
                    e
                }
                EphKey::WrongLength => vec![0x02; 10],
            };
            let vid = ids::node_id(&v.id);
            let sig = match signer {
                Signer::Adv(j) => hv::sign_nonce(&attacker_key(*j), &challenge, &eph_bytes, &vid).unwrap_or_default(),
                Signer::AdvExtended(j, tail) => {
                    let mut s = hv::sign_nonce(&attacker_key(*j), &challenge, &eph_bytes, &vid).unwrap_or_default();
                    match tail % 6 {
                        0 => s.push(0),
                        1 => s.push(1),
                        2 => s.push(27),
                        3 => s.push(28),
                        4 => s.extend_from_slice(&[0, 0]),
                        _ => s.push(prng(w.step, 33, 1)[0]),
                    }
                    s
                }
                Signer::Observed => {
                    let v_addr = w.nodes[0].addr;
                    w.log
                        .iter()
                        .rev()
                        .filter(|d| d.from_node.is_some() && d.to_addr == v_addr)
                        .find_map(|d| match d.decoded.as_ref().map(|p| &p.0.kind) {
                            Some(PacketKind::Handshake { src_id, id_nonce_sig, .. }) if src_id.raw() == xid => Some(id_nonce_sig.clone()),
                            _ => None,
                        })
                        .unwrap_or_else(|| prng(w.step, 34, 64))
                }
                Signer::Genuine => match w.xnode(x) {
                    Some(j) => hv::sign_nonce(&w.nodes[j].key, &challenge, &eph_bytes, &vid).unwrap_or_default(),
                    None => vec![],
                },
                Signer::Garbage => prng(w.step, 31, 64),
                Signer::Empty => vec![],
                Signer::Truncated => {
                    let mut s = hv::sign_nonce(&attacker_key(0), &challenge, &eph_bytes, &vid).unwrap_or_default();
                    s.truncate(32);
                    s
                }
            };
            let record: Option<Enr> = match rec {
                AttachedRecord::Own { key, seq, addr } => Some(attacker_record(w, *key, *seq, *addr, *z, x)),
                AttachedRecord::Genuine => match x {
                    XSel::Ed(n) => Some(ed_record(*n)),
                    _ => w.xnode(x).map(|j| w.nodes[j].enr.clone()),
                },
                AttachedRecord::ThirdParty(p) => {
                    let j = 1 + (*p as usize % (n - 1).max(1));
                    if n > 1 { Some(w.nodes[j.min(n - 1)].enr.clone()) } else { None }
                }
                AttachedRecord::None => None,
            };
            if let (Signer::Adv(j), AttachedRecord::Own { key, .. }) = (signer, rec) {
                if j % 3 == key % 3 && *eph == EphKey::Valid {
                    w.attacker.forged_with_verifying_sig += 1;
                }
            }
            let mut vp = VPacket {
                iv: u128::from_be_bytes(arr::<16>(prng(w.step, 41, 16))),
                message_nonce: arr::<12>(prng(w.step, 42, 12)),
                protocol_identity: ProtocolIdentity::default(),
                kind: PacketKind::Handshake {
                    src_id: ids::node_id(&xid),
                    id_nonce_sig: sig,
                    ephem_pubkey: eph_bytes,
                    enr_record: record,
                },
                message: vec![],
            };
            let aad = packet_authenticated_data(&vp);
            let plain = forged_plain(*body, w.step);
            vp.message = if *body == ForgedBody::Garbage {
                plain
            } else {
                hv::encrypt_message(&ikey, vp.message_nonce, &plain, &aad).unwrap_or_default()
            };
            let bytes = packet_encode(vp, &vid);
            if bytes.len() > 1280 {
                return false;
            }
            w.attacker.derived.push((xid, if spoofed.is_some() { 255 } else { *z }, ikey, rkey));
            w.inject(0, za, bytes, None, Some(if spoofed.is_some() { "forged-handshake-spoofed".into() } else { "forged-handshake".into() }));
            true
        }
        Op::ForgedMessage { x, z, body } => {
            let xid = w.xid(x);
            let Some((_, _, ikey, _)) = w.attacker.derived.iter().rev().find(|(i, zz, _, _)| *i == xid && zz % N_ATTACKER_ADDRS == z % N_ATTACKER_ADDRS).cloned() else {
                return false;
            };
            let mut vp = VPacket {
                iv: u128::from_be_bytes(arr::<16>(prng(w.step, 51, 16))),
                message_nonce: arr::<12>(prng(w.step, 52, 12)),
                protocol_identity: ProtocolIdentity::default(),
                kind: PacketKind::Message { src_id: ids::node_id(&xid) },
                message: vec![],
            };
            let aad = packet_authenticated_data(&vp);
            vp.message = hv::encrypt_message(&ikey, vp.message_nonce, &forged_plain(*body, w.step), &aad).unwrap_or_default();
            let bytes = packet_encode(vp, &ids::node_id(&w.nodes[0].id));
            w.inject(0, attacker_addr(*z), bytes, None, Some("forged-message".into()));
            true
        }
        Op::GuessedKeyMessage { peer, to, key, body } => {
            let j = 1 + (*peer as usize % (n - 1).max(1));
            let mut t = *to as usize % n;
            if n < 2 || j >= n {
                return false;
            }
            if t == j {
                t = 0;
            }
            let k: [u8; 16] = match key % 3 {
                0 => [0u8; 16],
                1 => [0xffu8; 16],
                _ => core::array::from_fn(|i| i as u8 + 1),
            };
            let mut vp = VPacket {
                iv: u128::from_be_bytes(arr::<16>(prng(w.step, 71, 16))),
                message_nonce: arr::<12>(prng(w.step, 72, 12)),
                protocol_identity: ProtocolIdentity::default(),
                kind: PacketKind::Message { src_id: ids::node_id(&w.nodes[j].id) },
                message: vec![],
            };
            let aad = packet_authenticated_data(&vp);
            vp.message = hv::encrypt_message(&k, vp.message_nonce, &forged_plain(*body, w.step), &aad).unwrap_or_default();
            let bytes = packet_encode(vp, &ids::node_id(&w.nodes[t].id));
            let from = w.nodes[j].addr;
            w.inject(t, from, bytes, None, Some("guessed-key-message".into()));
            true
        }
        Op::UndecodableMessage { peer, to, variant } => {
            let j = 1 + (*peer as usize % (n - 1).max(1));
            let mut t = *to as usize % n;
            if n < 2 || j >= n {
                return false;
            }
            if t == j {
                t = 0;
            }
            // the key under which j encrypts for t right now
            let t_addr = w.nodes[t].addr;
            let Some(k) = w.snaps[j].sessions.iter().find(|s| s.addr.socket_addr == t_addr).map(|s| s.keys.0) else { return false };
            let plain: Vec<u8> = match variant % 3 {
                0 => vec![0x09, 0xc1, 0x01],
                1 => discv5::verif::Message::Request(Request { id: RequestId(vec![0x77, w.step as u8]), body: RequestBody::FindNode { distances: vec![300] } }).encode(),
                _ => vec![0x01, 0xc5, 0x01],
            };
            let mut vp = VPacket {
                iv: u128::from_be_bytes(arr::<16>(prng(w.step, 73, 16))),
                message_nonce: arr::<12>(prng(w.step, 74, 12)),
                protocol_identity: ProtocolIdentity::default(),
                kind: PacketKind::Message { src_id: ids::node_id(&w.nodes[j].id) },
                message: vec![],
            };
            let aad = packet_authenticated_data(&vp);
            vp.message = hv::encrypt_message(&k, vp.message_nonce, &plain, &aad).unwrap_or_default();
            let bytes = packet_encode(vp, &ids::node_id(&w.nodes[t].id));
            let from = w.nodes[j].addr;
            w.inject(t, from, bytes, None, Some("undecodable-message-under-the-session-key".into()));
            true
        }
        Op::ForgedWhoAreYou { d, from, to, random_nonce } => match sel(&w.log, *d) {
            Some(i) => {
                let dg = w.log[i].clone();
                let t = *to as usize % n;
                let nonce = match (&dg.decoded, random_nonce) {
                    (Some((p, _)), false) => p.message_nonce,
                    _ => arr::<12>(prng(w.step, 61, 12)),
                };
                let vp = VPacket {
                    iv: u128::from_be_bytes(arr::<16>(prng(w.step, 62, 16))),
                    message_nonce: nonce,
                    protocol_identity: ProtocolIdentity::default(),
                    kind: PacketKind::WhoAreYou { id_nonce: arr::<16>(prng(w.step, 63, 16)), enr_seq: 0 },
                    message: vec![],
                };
                let bytes = packet_encode(vp, &ids::node_id(&w.nodes[t].id));
                let fa = addr_of(w, *from, dg.to_addr);
                w.inject(t, fa, bytes, None, Some("forged-whoareyou".into()));
                true
            }
            None => false,
        },
        Op::WhoAreYouForInflight { node, sel: s, handshaken_only } => {
            let t = *node as usize % n;
            let cands: Vec<(SocketAddr, [u8; 12])> = w.snaps[t].active.iter().filter(|a| !*handshaken_only || a.handshake_sent).map(|a| (a.addr.socket_addr, a.nonce)).collect();
            let Some(k) = sel(&cands, *s) else { return false };
            let (from, nonce) = cands[k];
            let vp = VPacket {
                iv: u128::from_be_bytes(arr::<16>(prng(w.step, 64, 16))),
                message_nonce: nonce,
                protocol_identity: ProtocolIdentity::default(),
                kind: PacketKind::WhoAreYou { id_nonce: arr::<16>(prng(w.step, 65, 16)), enr_seq: 0 },
                message: vec![],
            };
            let bytes = packet_encode(vp, &ids::node_id(&w.nodes[t].id));
            w.inject(t, from, bytes, None, Some("forged-whoareyou".into()));
            true
        }
        Op::Ban { peer, ip, on } => {
            let j = 1 + (*peer as usize % (n - 1).max(1));
            if j >= n {
                return false;
            }
            let mut l = discv5::verif::PERMIT_BAN_LIST.write();
            let id = ids::node_id(&w.nodes[j].id);
            if *on {
                l.ban_nodes.insert(id, None);
                if *ip {
                    l.ban_ips.insert(w.nodes[j].addr.ip(), None);
                }
            } else {
                l.ban_nodes.remove(&id);
                l.ban_ips.remove(&w.nodes[j].addr.ip());
            }
            true
        }
        Op::SubmitToMany { n: many } => {
            let pk = attacker_key(0).public();
            for i in 0..(*many).min(1500) {
                let addr = SocketAddr::new(std::net::IpAddr::V4(std::net::Ipv4Addr::new(10, 200, (i >> 8) as u8, i as u8)), 8000 + (i % 500));
                let contact = NodeContact::new(pk.clone(), addr, None);
                let rb = w.make_body(Body::Ping, 0);
                w.submit(0, contact, rb, false);
            }
            true
        }
        Op::SubmitToAttacker { x, z, with_record, body } => {
            let Some(j) = w.xnode(x) else { return false };
            let rb = w.make_body(*body, 0);
            let contact = NodeContact::new(
                w.nodes[j].key.public(),
                attacker_addr(*z),
                if *with_record { Some(w.nodes[j].enr.clone()) } else { None },
            );
            w.submit(0, contact, rb, *with_record);
            true
        }
    }
}

/// Advances the paused clock in slices so that emitted datagrams / events get usable time stamps.
pub async fn advance(w: &mut World, d: Duration) {
    let mut left = d;
    let slice = Duration::from_millis(50);
    while left > Duration::ZERO {
        let s = left.min(slice);
        tokio::time::sleep(s).await;
        left -= s;
        w.settle().await;
    }
}

pub struct RunOutcome {
    pub violation: Option<(String, String)>,
    pub panicked: Option<String>,
}

/// Runs a whole schedule with one oracle. `max_micro` bounds the number of micro-steps.
pub async fn run_schedule(cfg: WireConfig, ops: &[Op], drain: Drain, oracle: &mut dyn Oracle, rep: &mut CaseReport) -> RunOutcome {
    let mut w = World::new(cfg).await;
    let mut out = RunOutcome { violation: None, panicked: None };

    let trace = std::env::var("VERIF_TRACE").is_ok();
    let mut traced_log = 0usize;
    let mut traced_ev = 0usize;
    let mut traced_inj = 0usize;
    macro_rules! step {
        ($op:expr) => {{
            w.settle().await;
            if trace {
                eprintln!("--- step {} t={}ms op={:?}", w.step, w.now_ms(), $op);
                for j in &w.injections[traced_inj..] {
                    eprintln!("    inject -> node {} from {} ({} bytes) genuine_of={:?} manip={:?}", j.to_node, j.from_addr, j.bytes.len(), j.genuine_of, j.manipulation);
                }
                traced_inj = w.injections.len();
                for d in &w.log[traced_log..] {
                    let kind = d.decoded.as_ref().map(|p| format!("{}", match &p.0.kind { PacketKind::Message{..} => "message", PacketKind::WhoAreYou{..} => "WHOAREYOU", PacketKind::Handshake{..} => "handshake" })).unwrap_or("?".into());
                    let content = d.from_node.and_then(|q| crate::props::c04::decrypt(d, &w.keys_seen[q])).map(|(m, k)| format!("{m} key={}", hex::encode(&k[..4]))).unwrap_or_default();
                    eprintln!("    emit #{} node {:?} -> {} {} nonce={} {}", d.idx, d.from_node, d.to_addr, kind, d.decoded.as_ref().map(|p| hex::encode(&p.0.message_nonce[..6])).unwrap_or_default(), content);
                }
                traced_log = w.log.len();
                for e in &w.events[traced_ev..] {
                    eprintln!("    event node {}: {:?}", e.node, e.out);
                }
                traced_ev = w.events.len();
                for (i, s) in w.snaps.iter().enumerate() {
                    eprintln!("    snap {}: sessions={:?} active={:?} pending={:?} challenges={:?} exempt={:?}", i,
                        s.sessions.iter().map(|x| format!("{}:{}/{}{}", x.addr.socket_addr, hex::encode(&x.keys.0[..4]), hex::encode(&x.keys.1[..4]), if x.old_keys.is_some() {"+old"} else {""})).collect::<Vec<_>>(),
                        s.active.iter().map(|a| format!("{}{}@{} n={} r={} hs={}", if a.internal {"i"} else {""}, a.id, a.addr.socket_addr.port(), hex::encode(&a.nonce[..6]), a.retries, a.handshake_sent)).collect::<Vec<_>>(),
                        s.pending.iter().map(|a| format!("{}", a.id)).collect::<Vec<_>>(),
                        s.challenges.iter().map(|(a, _)| format!("{}", a.socket_addr)).collect::<Vec<_>>(),
                        s.exemptions);
                }
                eprintln!("    pool={:?}", w.pool);
            }
            if let Some(p) = crate::runner::take_panic() {
                out.panicked = Some(p);
                oracle.report(&w, rep);
                return out;
            }
            if let Some(v) = oracle.after_step(&w, $op) {
                out.violation = Some(v);
                oracle.report(&w, rep);
                return out;
            }
            w.step += 1;
        }};
    }

    for op in ops {
        match op {
            Op::DeliverAll => {
                let mut guard = 0;
                while !w.pool.is_empty() && guard < 60 {
                    guard += 1;
                    let idx = w.pool.remove(0);
                    w.deliver_logged(idx);
                    step!(op);
                }
            }
            Op::Advance(dt) => {
                // in slices of 50 ms, the oracle looks after every slice (a long advance would
                // otherwise hide when something became active or expired)
                let mut left = dt.dur();
                let slice = Duration::from_millis(50);
                while left > Duration::ZERO {
                    let s = left.min(slice);
                    tokio::time::sleep(s).await;
                    left -= s;
                    step!(op);
                }
            }
            Op::Restart(i) => {
                let n = w.nodes.len();
                if n > 1 {
                    let i = 1 + (*i as usize % (n - 1));
                    w.restart(i).await;
                    w.notes.push(format!("restart:{i}"));
                    step!(op);
                }
            }
            other => {
                if act(&mut w, other) {
                    step!(other);
                }
            }
        }
    }

    // ---- drain
    if drain != Drain::None {
        let rounds = (w.cfg.retries as usize + 2) * 2;
        w.cfg.wru_mode.iter_mut().for_each(|m| *m = AppMode::Immediate);
        w.cfg.resp_mode.iter_mut().for_each(|m| *m = AppMode::Immediate);
        if drain == Drain::Answering {
            // release everything that applications held back
            for i in 0..w.nodes.len() {
                let held: Vec<_> = std::mem::take(&mut w.nodes[i].held_wru);
                for r in held {
                    let know = w.cfg.wru_know.get(i).copied().unwrap_or(Know::Current);
                    let about = r.0.node_id;
                    let rec = w.nodes.iter().position(|x| ids::node_id(&x.id) == about).and_then(|j| match know {
                        Know::Current => Some(w.nodes[j].enr.clone()),
                        Know::Older => Some(w.nodes[j].older_enr.clone()),
                        Know::Nothing => None,
                    });
                    let _ = w.nodes[i].vh.to_handler.send(HandlerIn::WhoAreYou(r, rec));
                }
                let held: Vec<_> = std::mem::take(&mut w.nodes[i].held_req);
                for (addr, req) in held {
                    let k = w.cfg.nodes_packets.clamp(1, 5);
                    w.respond(i, addr, req, k);
                }
            }
            step!(&Op::DeliverAll);
        }
        for _ in 0..rounds {
            if drain == Drain::Answering {
                let mut guard = 0;
                while !w.pool.is_empty() && guard < 200 {
                    guard += 1;
                    let idx = w.pool.remove(0);
                    w.deliver_logged(idx);
                    step!(&Op::DeliverAll);
                }
            } else {
                w.pool.clear();
            }
            {
                let mut left = Duration::from_millis(REQUEST_TIMEOUT_MS + 50);
                let slice = Duration::from_millis(50);
                while left > Duration::ZERO {
                    let s = left.min(slice);
                    tokio::time::sleep(s).await;
                    left -= s;
                    step!(&Op::Advance(Dt::TimeoutPlus));
                }
            }
        }
        if drain == Drain::Silent {
            w.pool.clear();
        }
    }
    if let Some(v) = oracle.finish(&w) {
        out.violation = Some(v);
    }
    oracle.report(&w, rep);
    out
}

/// Synchronous wrapper: fresh paused single-threaded runtime per case.
pub fn run_case_blocking(cfg: WireConfig, ops: &[Op], drain: Drain, oracle: &mut dyn Oracle, rep: &mut CaseReport) {
    let rt = tokio::runtime::Builder::new_current_thread()
        .enable_all()
        .start_paused(true)
        .build()
        .expect("runtime");
    let out = rt.block_on(run_schedule(cfg, ops, drain, oracle, rep));
    drop(rt);
    if let Some(p) = out.panicked {
        rep.fail(format!("panic-in-task/{}", p.split(':').take(2).collect::<Vec<_>>().join(":")), format!("a task of the code under test panicked: {p}"));
    }
    if let Some((s, d)) = out.violation {
        rep.fail(s, d);
    }
}

#[allow(dead_code)]
pub fn ip(a: &SocketAddr) -> IpAddr {
    a.ip()
}

#[allow(dead_code)]
pub fn nid(id: &ids::Id) -> NodeId {
    ids::node_id(id)
}
