//! Table engine: drives the real `KBucketsTable<NodeId, u32>` through its public API with
//! generated operation histories, observing it only through non-mutating accessors.

use crate::ids::{self, Id, RelKey, NPATTERNS};
use discv5::{
    enr::NodeId,
    kbucket::{
        ConnectionDirection, ConnectionState, Entry, FailureReason, InsertResult, KBucketsTable, Key,
        NodeStatus, UpdateResult,
    },
};
use proptest::prelude::*;
use serde::{Deserialize, Serialize};
use std::time::Duration;

pub const K: usize = 16;

#[derive(Clone, Copy, Debug, PartialEq, Eq, Hash, Serialize, Deserialize)]
pub enum KeyRef {
    Local,
    Rel(RelKey),
}

impl KeyRef {
    pub fn id(&self, local: &Id) -> Id {
        match self {
            KeyRef::Local => *local,
            KeyRef::Rel(k) => ids::rel_id(local, *k),
        }
    }
}

#[derive(Clone, Debug, PartialEq, Eq, Hash, Serialize, Deserialize)]
pub enum TOp {
    /// Bulk: `insert_or_update` of patterns 0..n of one bucket; bit i of `conn` = connected,
    /// bit i of `inc` = incoming.
    Fill { bucket: u8, n: u8, conn: u32, inc: u32 },
    InsertOrUpdate { key: KeyRef, value: u32, connected: bool, incoming: bool },
    UpdateNode { key: KeyRef, value: u32, state: Option<bool> },
    UpdateStatus { key: KeyRef, connected: bool, direction: Option<bool> },
    Remove { key: KeyRef },
    EntryInsert { key: KeyRef, value: u32, connected: bool, incoming: bool },
    EntryUpdate { key: KeyRef, connected: bool, direction: Option<bool> },
    EntryRemove { key: KeyRef },
    EntryValueMut { key: KeyRef, value: u32 },
    Iter,
    ClosestKeys { target: KeyRef },
    NodesByDistances { ds: Vec<u16>, cap: u8 },
    TakeAppliedPending,
    ExpirePending { bucket: u8 },
}

#[derive(Clone, Debug, PartialEq, Eq, Hash, Serialize, Deserialize)]
pub struct TableConfig {
    #[serde(with = "crate::ids::hex32")]
    pub local: Id,
    pub max_incoming: u8,
    /// true: pending timeout 0 (elapsed at the next access); false: 1 h (never, unless forced).
    pub pending_zero: bool,
}

// ------------------------------------------------------------------------------------------
// strategies
// ------------------------------------------------------------------------------------------

pub const CLASS_BUCKETS: [u8; 16] = [0, 1, 2, 3, 4, 5, 6, 8, 16, 64, 127, 128, 200, 253, 254, 255];

pub fn bucket_strategy(focus: Vec<u8>) -> BoxedStrategy<u8> {
    prop_oneof![
        6 => proptest::sample::select(focus),
        2 => proptest::sample::select(CLASS_BUCKETS.to_vec()),
        1 => any::<u8>(),
    ]
    .boxed()
}

pub fn key_strategy(focus: Vec<u8>) -> BoxedStrategy<KeyRef> {
    prop_oneof![
        40 => (bucket_strategy(focus), 0..NPATTERNS).prop_map(|(bucket, pat)| KeyRef::Rel(RelKey { bucket, pat })),
        1 => Just(KeyRef::Local),
    ]
    .boxed()
}

pub fn op_strategy(focus: Vec<u8>) -> BoxedStrategy<TOp> {
    let key = || key_strategy(focus.clone());
    let val = || 0u32..4;
    prop_oneof![
        3 => (bucket_strategy(focus.clone()), 1u8..=NPATTERNS, any::<u32>(), any::<u32>())
            .prop_map(|(bucket, n, conn, inc)| TOp::Fill { bucket, n, conn, inc }),
        12 => (key(), val(), any::<bool>(), any::<bool>())
            .prop_map(|(key, value, connected, incoming)| TOp::InsertOrUpdate { key, value, connected, incoming }),
        5 => (key(), val(), proptest::option::of(any::<bool>()))
            .prop_map(|(key, value, state)| TOp::UpdateNode { key, value, state }),
        10 => (key(), any::<bool>(), proptest::option::of(any::<bool>()))
            .prop_map(|(key, connected, direction)| TOp::UpdateStatus { key, connected, direction }),
        5 => key().prop_map(|key| TOp::Remove { key }),
        4 => (key(), val(), any::<bool>(), any::<bool>())
            .prop_map(|(key, value, connected, incoming)| TOp::EntryInsert { key, value, connected, incoming }),
        4 => (key(), any::<bool>(), proptest::option::of(any::<bool>()))
            .prop_map(|(key, connected, direction)| TOp::EntryUpdate { key, connected, direction }),
        2 => key().prop_map(|key| TOp::EntryRemove { key }),
        2 => (key(), val()).prop_map(|(key, value)| TOp::EntryValueMut { key, value }),
        2 => Just(TOp::Iter),
        2 => key().prop_map(|target| TOp::ClosestKeys { target }),
        2 => (proptest::collection::vec(0u16..=257, 1..5), 1u8..40)
            .prop_map(|(ds, cap)| TOp::NodesByDistances { ds, cap }),
        1 => Just(TOp::TakeAppliedPending),
        4 => bucket_strategy(focus.clone()).prop_map(|bucket| TOp::ExpirePending { bucket }),
    ]
    .boxed()
}

pub fn focus_strategy() -> BoxedStrategy<Vec<u8>> {
    prop_oneof![
        3 => proptest::collection::vec(proptest::sample::select(CLASS_BUCKETS.to_vec()), 1..4),
        1 => proptest::collection::vec(any::<u8>(), 1..4),
    ]
    .boxed()
}

/// A multi-step scenario around the pending slot of one full bucket, built by construction:
/// fill the bucket (front disconnected), make a connected node pending, change the status of some
/// stored nodes (towards / away from the incoming limit), optionally remove one, let the pending
/// time-out elapse, touch the table.
pub fn pending_scenario(focus: Vec<u8>) -> BoxedStrategy<Vec<TOp>> {
    (
        proptest::sample::select(focus),
        any::<u32>(),
        any::<u32>(),
        any::<bool>(),
        // status reports for stored nodes (patterns 0..15), the waiting node (16) and a newcomer (17)
        proptest::collection::vec((prop_oneof![6 => 0u8..16, 2 => Just(16u8), 1 => Just(17u8)], any::<bool>(), proptest::option::of(any::<bool>())), 0..4),
        // a second candidate for the occupied pending slot
        proptest::option::of((any::<bool>(), any::<bool>())),
        proptest::option::of(0u8..NPATTERNS),
        proptest::option::of((0u8..NPATTERNS, any::<bool>(), any::<bool>())),
        any::<bool>(),
    )
        .prop_map(|(bucket, conn, inc, pend_incoming, status_ops, second, remove, reinsert, expire)| {
            let key = |pat: u8| KeyRef::Rel(RelKey { bucket, pat });
            // front node (pattern 0) disconnected so that a pending slot can be taken
            let mut v = vec![TOp::Fill { bucket, n: 16, conn: conn & !1, inc }];
            v.push(TOp::InsertOrUpdate { key: key(16), value: 1, connected: true, incoming: pend_incoming });
            for (pat, connected, direction) in status_ops {
                v.push(TOp::UpdateStatus { key: key(pat), connected, direction });
            }
            if let Some((connected, incoming)) = second {
                v.push(TOp::InsertOrUpdate { key: key(17), value: 3, connected, incoming });
            }
            if let Some(pat) = remove {
                v.push(TOp::Remove { key: key(pat) });
            }
            if let Some((pat, connected, incoming)) = reinsert {
                v.push(TOp::InsertOrUpdate { key: key(pat), value: 2, connected, incoming });
            }
            if expire {
                v.push(TOp::ExpirePending { bucket });
            }
            v.push(TOp::Iter);
            v
        })
        .boxed()
}

/// A full bucket whose only disconnected node is the front one gets a waiting node; the front node
/// then leaves the table (removed) and a connected node takes the free slot: every stored node is
/// connected now, and the waiting node's time-out elapses.
pub fn pending_front_replaced(focus: Vec<u8>) -> BoxedStrategy<Vec<TOp>> {
    (proptest::sample::select(focus), any::<u32>(), any::<bool>(), any::<bool>(), proptest::option::of((0u8..16, any::<bool>())), any::<bool>())
        .prop_map(|(bucket, inc, pend_incoming, new_incoming, later_status, via_entry)| {
            let key = |pat: u8| KeyRef::Rel(RelKey { bucket, pat });
            let mut v = vec![TOp::Fill { bucket, n: 16, conn: !1u32, inc }];
            v.push(TOp::InsertOrUpdate { key: key(16), value: 1, connected: true, incoming: pend_incoming });
            v.push(if via_entry { TOp::EntryRemove { key: key(0) } } else { TOp::Remove { key: key(0) } });
            v.push(TOp::InsertOrUpdate { key: key(17), value: 2, connected: true, incoming: new_incoming });
            v.push(TOp::ExpirePending { bucket });
            v.push(TOp::Iter);
            if let Some((pat, connected)) = later_status {
                v.push(TOp::UpdateStatus { key: key(pat), connected, direction: None });
                v.push(TOp::Iter);
            }
            v
        })
        .boxed()
}

pub fn config_strategy() -> BoxedStrategy<TableConfig> {
    (
        any::<[u8; 32]>(),
        prop_oneof![3 => Just(16u8), 3 => 1u8..=6, 2 => 0u8..=16],
        any::<bool>(),
    )
        .prop_map(|(local, max_incoming, pending_zero)| TableConfig { local, max_incoming, pending_zero })
        .boxed()
}

// ------------------------------------------------------------------------------------------
// observation
// ------------------------------------------------------------------------------------------

#[derive(Clone, Debug, PartialEq, Eq)]
pub struct ONode {
    pub id: Id,
    pub value: u32,
    pub connected: bool,
    pub incoming: bool,
}

#[derive(Clone, Debug, Default, PartialEq, Eq)]
pub struct OBucket {
    pub nodes: Vec<ONode>,
    pub pending: Option<ONode>,
    /// the instant at which the pending node becomes eligible (read through a guarded accessor)
    pub pending_deadline: Option<std::time::Instant>,
}

pub type Snapshot = Vec<OBucket>; // 256 buckets

pub type Table = KBucketsTable<NodeId, u32>;

pub fn key_of(id: &Id) -> Key<NodeId> {
    Key::from(ids::node_id(id))
}

pub fn observe(t: &Table) -> Snapshot {
    t.buckets_iter()
        .map(|b| OBucket {
            nodes: b
                .iter()
                .map(|n| ONode {
                    id: n.key.preimage().raw(),
                    value: n.value,
                    connected: n.status.is_connected(),
                    incoming: n.status.is_incoming(),
                })
                .collect(),
            pending: b.pending().map(|p| ONode {
                id: p.verif_key().preimage().raw(),
                value: *p.value(),
                connected: p.status().is_connected(),
                incoming: p.status().is_incoming(),
            }),
            pending_deadline: b.pending().map(|p| p.verif_replace_at()),
        })
        .collect()
}

pub fn new_table(cfg: &TableConfig) -> Table {
    KBucketsTable::new(
        key_of(&cfg.local),
        if cfg.pending_zero { Duration::from_secs(0) } else { Duration::from_secs(3600) },
        cfg.max_incoming as usize,
        None,
        None,
    )
}

pub fn status(connected: bool, incoming: bool) -> NodeStatus {
    NodeStatus {
        state: if connected { ConnectionState::Connected } else { ConnectionState::Disconnected },
        direction: if incoming { ConnectionDirection::Incoming } else { ConnectionDirection::Outgoing },
    }
}

fn cstate(c: bool) -> ConnectionState {
    if c { ConnectionState::Connected } else { ConnectionState::Disconnected }
}

fn cdir(i: bool) -> ConnectionDirection {
    if i { ConnectionDirection::Incoming } else { ConnectionDirection::Outgoing }
}

/// Outcome of applying one op: what the API returned, in a normalised form.
#[derive(Clone, Debug, PartialEq, Eq)]
pub enum Ret {
    None,
    Insert(String),
    Update(String),
    Removed(bool),
    Keys(Vec<Id>),
    SelfEntry,
    EntryKind(&'static str),
}

pub fn fmt_insert(r: &InsertResult<NodeId>) -> String {
    match r {
        InsertResult::Inserted => "Inserted".into(),
        InsertResult::Pending { .. } => "Pending".into(),
        InsertResult::StatusUpdated { .. } => "StatusUpdated".into(),
        InsertResult::ValueUpdated => "ValueUpdated".into(),
        InsertResult::Updated { .. } => "Updated".into(),
        InsertResult::UpdatedPending => "UpdatedPending".into(),
        InsertResult::Failed(f) => format!("Failed({f:?})"),
    }
}

pub fn fmt_update(r: &UpdateResult) -> String {
    format!("{r:?}")
}

/// Expands bulk ops into elementary ones (the invariants are evaluated after every elementary op).
pub fn expand(op: &TOp) -> Vec<TOp> {
    match op {
        TOp::Fill { bucket, n, conn, inc } => (0..*n)
            .map(|p| TOp::InsertOrUpdate {
                key: KeyRef::Rel(RelKey { bucket: *bucket, pat: p }),
                value: p as u32 % 4,
                connected: (conn >> p) & 1 == 1,
                incoming: (inc >> p) & 1 == 1,
            })
            .collect(),
        other => vec![other.clone()],
    }
}

/// Applies one elementary op to the real table and returns (key operated on, normalised result).
pub fn apply(t: &mut Table, local: &Id, op: &TOp) -> (Option<Id>, Ret) {
    let mut v = apply_inner(t, local, op);
    v.pop().expect("one result")
}

fn apply_inner(t: &mut Table, local: &Id, op: &TOp) -> Vec<(Option<Id>, Ret)> {
    match op {
        TOp::Fill { .. } => panic!("Fill must be expanded"),
        TOp::InsertOrUpdate { key, value, connected, incoming } => {
            let id = key.id(local);
            let r = t.insert_or_update(&key_of(&id), *value, status(*connected, *incoming));
            vec![(Some(id), Ret::Insert(fmt_insert(&r)))]
        }
        TOp::UpdateNode { key, value, state } => {
            let id = key.id(local);
            let r = t.update_node(&key_of(&id), *value, state.map(cstate));
            vec![(Some(id), Ret::Update(fmt_update(&r)))]
        }
        TOp::UpdateStatus { key, connected, direction } => {
            let id = key.id(local);
            let r = t.update_node_status(&key_of(&id), cstate(*connected), direction.map(cdir));
            vec![(Some(id), Ret::Update(fmt_update(&r)))]
        }
        TOp::Remove { key } => {
            let id = key.id(local);
            let r = t.remove(&key_of(&id));
            vec![(Some(id), Ret::Removed(r))]
        }
        TOp::EntryInsert { key, value, connected, incoming } => {
            let id = key.id(local);
            let k = key_of(&id);
            let ret = match t.entry(&k) {
                Entry::Absent(e) => {
                    let r = e.insert(*value, status(*connected, *incoming));
                    Ret::Insert(format!("{r:?}").split(|c| c == ' ' || c == '{').next().unwrap_or("").to_string())
                }
                Entry::Present(..) => Ret::EntryKind("present"),
                Entry::Pending(..) => Ret::EntryKind("pending"),
                Entry::SelfEntry => Ret::SelfEntry,
            };
            vec![(Some(id), ret)]
        }
        TOp::EntryUpdate { key, connected, direction } => {
            let id = key.id(local);
            let k = key_of(&id);
            let ret = match t.entry(&k) {
                Entry::Present(e, _) => match e.update(cstate(*connected), direction.map(cdir)) {
                    Ok(_) => Ret::Update("Ok".into()),
                    Err(f) => Ret::Update(format!("Failed({f:?})")),
                },
                Entry::Pending(e, st) => {
                    let mut s = st;
                    s.state = cstate(*connected);
                    if let Some(d) = direction {
                        s.direction = cdir(*d);
                    }
                    let _ = e.update(s);
                    Ret::EntryKind("pending")
                }
                Entry::Absent(_) => Ret::EntryKind("absent"),
                Entry::SelfEntry => Ret::SelfEntry,
            };
            vec![(Some(id), ret)]
        }
        TOp::EntryRemove { key } => {
            let id = key.id(local);
            let k = key_of(&id);
            let ret = match t.entry(&k) {
                Entry::Present(e, _) => {
                    e.remove();
                    Ret::EntryKind("present")
                }
                Entry::Pending(e, _) => {
                    e.remove();
                    Ret::EntryKind("pending")
                }
                Entry::Absent(_) => Ret::EntryKind("absent"),
                Entry::SelfEntry => Ret::SelfEntry,
            };
            vec![(Some(id), ret)]
        }
        TOp::EntryValueMut { key, value } => {
            let id = key.id(local);
            let k = key_of(&id);
            let ret = match t.entry(&k) {
                Entry::Present(mut e, _) => {
                    *e.value_mut() = *value;
                    Ret::EntryKind("present")
                }
                Entry::Pending(mut e, _) => {
                    *e.value_mut() = *value;
                    Ret::EntryKind("pending")
                }
                Entry::Absent(_) => Ret::EntryKind("absent"),
                Entry::SelfEntry => Ret::SelfEntry,
            };
            vec![(Some(id), ret)]
        }
        TOp::Iter => {
            let keys: Vec<Id> = t.iter().map(|e| e.node.key.preimage().raw()).collect();
            vec![(None, Ret::Keys(keys))]
        }
        TOp::ClosestKeys { target } => {
            let id = target.id(local);
            let k = key_of(&id);
            let keys: Vec<Id> = t.closest_keys(&k).map(|k| k.preimage().raw()).collect();
            vec![(Some(id), Ret::Keys(keys))]
        }
        TOp::NodesByDistances { ds, cap } => {
            let d: Vec<u64> = ds.iter().map(|x| *x as u64).collect();
            let keys: Vec<Id> = t
                .nodes_by_distances(&d, *cap as usize)
                .into_iter()
                .map(|e| e.node.key.preimage().raw())
                .collect();
            vec![(None, Ret::Keys(keys))]
        }
        TOp::TakeAppliedPending => {
            while t.take_applied_pending().is_some() {}
            vec![(None, Ret::None)]
        }
        TOp::ExpirePending { bucket } => {
            let _ = t.verif_expire_pending(*bucket as usize);
            vec![(None, Ret::None)]
        }
    }
}

#[allow(dead_code)]
pub fn is_failed_self(r: &Ret) -> bool {
    matches!(r, Ret::Insert(s) if s == &format!("Failed({:?})", FailureReason::InvalidSelfUpdate))
}
