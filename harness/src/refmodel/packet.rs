//! Reference codec for discv5.1 datagrams, written from the wire specification:
//!   packet        = masking-iv || masked-header || message
//!   masked-header = aesctr_encrypt(masking-key = dest-id[:16], masking-iv, header)
//!   header        = static-header || authdata
//!   static-header = protocol-id(6) || version(2) || flag(1) || nonce(12) || authdata-size(2)
//! Independent of /repo's src/packet/mod.rs (uses the `aes`/`ctr` crates directly).

use aes::cipher::{KeyIvInit, StreamCipher};

type Ctr = ctr::Ctr128BE<aes::Aes128>;

pub const MIN: usize = 63;
pub const MAX: usize = 1280;

#[derive(Clone, Debug, PartialEq, Eq)]
pub enum RKind {
    Message { src_id: [u8; 32] },
    WhoAreYou { id_nonce: [u8; 16], enr_seq: u64 },
    Handshake { src_id: [u8; 32], sig: Vec<u8>, key: Vec<u8>, record: Option<Vec<u8>> },
}

#[derive(Clone, Debug, PartialEq, Eq)]
pub struct RPacket {
    pub iv: [u8; 16],
    pub protocol_id: [u8; 6],
    pub version: [u8; 2],
    pub nonce: [u8; 12],
    pub kind: RKind,
    pub message: Vec<u8>,
}

#[derive(Clone, Debug, PartialEq, Eq)]
pub enum PErr {
    TooShort,
    TooLong,
    ProtocolId,
    Version,
    UnknownFlag,
    AuthSizeBeyondDatagram,
    AuthSizeForKind,
    WhoAreYouWithBody,
    RecordInvalid,
    /// bytes after a valid record inside the handshake auth-data
    TrailingAfterRecord,
}

impl PErr {
    /// reasons listed in the property statement
    pub fn must_reject(&self) -> bool {
        !matches!(self, PErr::TrailingAfterRecord)
    }
}

pub fn mask(dest_id: &[u8; 32], iv: &[u8; 16], data: &mut [u8]) {
    let mut c = Ctr::new(dest_id[..16].into(), iv.into());
    c.apply_keystream(data);
}

pub fn authdata(kind: &RKind) -> Vec<u8> {
    match kind {
        RKind::Message { src_id } => src_id.to_vec(),
        RKind::WhoAreYou { id_nonce, enr_seq } => {
            let mut v = id_nonce.to_vec();
            v.extend_from_slice(&enr_seq.to_be_bytes());
            v
        }
        RKind::Handshake { src_id, sig, key, record } => {
            let mut v = src_id.to_vec();
            v.push(sig.len() as u8);
            v.push(key.len() as u8);
            v.extend_from_slice(sig);
            v.extend_from_slice(key);
            if let Some(r) = record {
                v.extend_from_slice(r);
            }
            v
        }
    }
}

pub fn flag(kind: &RKind) -> u8 {
    match kind {
        RKind::Message { .. } => 0,
        RKind::WhoAreYou { .. } => 1,
        RKind::Handshake { .. } => 2,
    }
}

/// Unmasked header bytes (static header || authdata).
pub fn header_bytes(p: &RPacket) -> Vec<u8> {
    let ad = authdata(&p.kind);
    let mut h = Vec::with_capacity(23 + ad.len());
    h.extend_from_slice(&p.protocol_id);
    h.extend_from_slice(&p.version);
    h.push(flag(&p.kind));
    h.extend_from_slice(&p.nonce);
    h.extend_from_slice(&(ad.len() as u16).to_be_bytes());
    h.extend_from_slice(&ad);
    h
}

/// Returns (datagram, authenticated data = iv || unmasked header).
pub fn encode(p: &RPacket, dest_id: &[u8; 32]) -> (Vec<u8>, Vec<u8>) {
    let h = header_bytes(p);
    let mut aad = p.iv.to_vec();
    aad.extend_from_slice(&h);
    let mut masked = h;
    mask(dest_id, &p.iv, &mut masked);
    let mut out = p.iv.to_vec();
    out.extend_from_slice(&masked);
    out.extend_from_slice(&p.message);
    (out, aad)
}

/// Builds a datagram from raw header fields (possibly inconsistent) - for mutation in the unmasked domain.
pub fn assemble_raw(
    dest_id: &[u8; 32],
    iv: &[u8; 16],
    protocol_id: &[u8; 6],
    version: &[u8; 2],
    flag: u8,
    nonce: &[u8; 12],
    authdata_size: u16,
    rest_unmasked_then_body: &[u8],
    masked_len: usize,
) -> Vec<u8> {
    // everything after the static header is given as one byte string; the first `masked_len`
    // bytes of it are masked together with the static header (one continuous key stream).
    let mut h = Vec::new();
    h.extend_from_slice(protocol_id);
    h.extend_from_slice(version);
    h.push(flag);
    h.extend_from_slice(nonce);
    h.extend_from_slice(&authdata_size.to_be_bytes());
    let ml = masked_len.min(rest_unmasked_then_body.len());
    h.extend_from_slice(&rest_unmasked_then_body[..ml]);
    mask(dest_id, iv, &mut h);
    let mut out = iv.to_vec();
    out.extend_from_slice(&h);
    out.extend_from_slice(&rest_unmasked_then_body[ml..]);
    out
}

pub fn decode(
    local_id: &[u8; 32],
    protocol_id: &[u8; 6],
    version: &[u8; 2],
    data: &[u8],
) -> Result<(RPacket, Vec<u8>), PErr> {
    if data.len() > MAX {
        return Err(PErr::TooLong);
    }
    if data.len() < MIN {
        return Err(PErr::TooShort);
    }
    let iv: [u8; 16] = data[..16].try_into().unwrap();
    // unmask everything after the iv with one key stream; only the header part is meaningful
    let mut un = data[16..].to_vec();
    mask(local_id, &iv, &mut un);
    if &un[..6] != protocol_id {
        return Err(PErr::ProtocolId);
    }
    if &un[6..8] != version {
        return Err(PErr::Version);
    }
    let fl = un[8];
    let nonce: [u8; 12] = un[9..21].try_into().unwrap();
    let ads = u16::from_be_bytes([un[21], un[22]]) as usize;
    if fl > 2 {
        // (the crate checks the size first; both are rejections)
        return Err(if ads > un.len() - 23 { PErr::AuthSizeBeyondDatagram } else { PErr::UnknownFlag });
    }
    if ads > un.len() - 23 {
        return Err(PErr::AuthSizeBeyondDatagram);
    }
    let ad = &un[23..23 + ads];
    let message = data[16 + 23 + ads..].to_vec();
    let kind = match fl {
        0 => {
            if ads != 32 {
                return Err(PErr::AuthSizeForKind);
            }
            RKind::Message { src_id: ad.try_into().unwrap() }
        }
        1 => {
            if ads != 24 {
                return Err(PErr::AuthSizeForKind);
            }
            if !message.is_empty() {
                return Err(PErr::WhoAreYouWithBody);
            }
            RKind::WhoAreYou {
                id_nonce: ad[..16].try_into().unwrap(),
                enr_seq: u64::from_be_bytes(ad[16..24].try_into().unwrap()),
            }
        }
        _ => {
            if ads < 34 {
                return Err(PErr::AuthSizeForKind);
            }
            let ss = ad[32] as usize;
            let ks = ad[33] as usize;
            if ads < 34 + ss + ks {
                return Err(PErr::AuthSizeForKind);
            }
            let sig = ad[34..34 + ss].to_vec();
            let key = ad[34 + ss..34 + ss + ks].to_vec();
            let rest = &ad[34 + ss + ks..];
            let record = if rest.is_empty() {
                None
            } else {
                // one RLP list that is a valid signed record, and nothing after it
                match super::rlp::split(rest) {
                    Ok((true, _p, whole, after)) => {
                        if !super::message::record_valid(whole) {
                            return Err(PErr::RecordInvalid);
                        }
                        if !after.is_empty() {
                            return Err(PErr::TrailingAfterRecord);
                        }
                        Some(whole.to_vec())
                    }
                    _ => return Err(PErr::RecordInvalid),
                }
            };
            RKind::Handshake { src_id: ad[..32].try_into().unwrap(), sig, key, record }
        }
    };
    let mut aad = iv.to_vec();
    aad.extend_from_slice(&un[..23 + ads]);
    Ok((
        RPacket { iv, protocol_id: *protocol_id, version: *version, nonce, kind, message },
        aad,
    ))
}
