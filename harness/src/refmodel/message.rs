//! Reference codec for discv5.1 RPC messages, written from the wire specification
//! (message = type byte || RLP list). Independent of /repo's src/rpc.rs.

use super::rlp::{self, Item, RlpErr};
use discv5::Enr;
use std::net::IpAddr;

#[derive(Clone, Debug, PartialEq, Eq)]
pub enum RMsg {
    Ping { id: Vec<u8>, enr_seq: u64 },
    Pong { id: Vec<u8>, enr_seq: u64, ip: IpAddr, port: u16 },
    FindNode { id: Vec<u8>, distances: Vec<u64> },
    Nodes { id: Vec<u8>, total: u64, records: Vec<Vec<u8>> },
    TalkReq { id: Vec<u8>, protocol: Vec<u8>, request: Vec<u8> },
    TalkResp { id: Vec<u8>, response: Vec<u8> },
}

/// Why the reference rejects. `must_reject()` = reasons the property statement lists.
#[derive(Clone, Debug, PartialEq, Eq)]
pub enum RefErr {
    TooShort,
    UnknownType,
    OuterNotList,
    /// trailing or missing bytes w.r.t. the outer list length
    OuterLength,
    /// wrong number of list elements (PING/PONG/FINDNODE/TALKREQ/TALKRESP)
    ItemCount,
    /// an element has the wrong RLP kind (list where a string is expected or vice versa)
    ItemKind,
    IdTooLong,
    NonCanonical,
    IntOverflow,
    DistanceTooLarge,
    PortZero,
    IpLength,
    RecordInvalid,
    /// NODES: the record list's own length prefix disagrees with the items that follow / items
    /// after the record list
    NodesInnerLength,
    Truncated,
}

impl RefErr {
    pub fn must_reject(&self) -> bool {
        matches!(
            self,
            RefErr::OuterLength
                | RefErr::ItemCount
                | RefErr::IdTooLong
                | RefErr::DistanceTooLarge
                | RefErr::PortZero
                | RefErr::IpLength
                | RefErr::RecordInvalid
                | RefErr::TooShort
                | RefErr::Truncated
        )
    }
}

fn conv(e: RlpErr) -> RefErr {
    match e {
        RlpErr::Short => RefErr::Truncated,
        RlpErr::NonCanonical => RefErr::NonCanonical,
        RlpErr::Overflow => RefErr::IntOverflow,
    }
}

pub fn encode(m: &RMsg) -> Vec<u8> {
    let (t, items) = match m {
        RMsg::Ping { id, enr_seq } => (1u8, vec![Item::Bytes(id.clone()), rlp::encode_uint(*enr_seq)]),
        RMsg::Pong { id, enr_seq, ip, port } => (
            2,
            vec![
                Item::Bytes(id.clone()),
                rlp::encode_uint(*enr_seq),
                Item::Bytes(match ip {
                    IpAddr::V4(a) => a.octets().to_vec(),
                    IpAddr::V6(a) => a.octets().to_vec(),
                }),
                rlp::encode_uint(*port as u64),
            ],
        ),
        RMsg::FindNode { id, distances } => (
            3,
            vec![Item::Bytes(id.clone()), Item::List(distances.iter().map(|d| rlp::encode_uint(*d)).collect())],
        ),
        RMsg::Nodes { id, total, records } => (
            4,
            vec![
                Item::Bytes(id.clone()),
                rlp::encode_uint(*total),
                Item::List(records.iter().map(|r| Item::Raw(r.clone())).collect()),
            ],
        ),
        RMsg::TalkReq { id, protocol, request } => (
            5,
            vec![Item::Bytes(id.clone()), Item::Bytes(protocol.clone()), Item::Bytes(request.clone())],
        ),
        RMsg::TalkResp { id, response } => (6, vec![Item::Bytes(id.clone()), Item::Bytes(response.clone())]),
    };
    let mut out = vec![t];
    rlp::encode(&Item::List(items), &mut out);
    out
}

/// Is this byte string a valid signed node record (checked with the `enr` crate, which is outside
/// the repository under test)?
pub fn record_valid(item: &[u8]) -> bool {
    use alloy_rlp::Decodable;
    let mut s = item;
    match Enr::decode(&mut s) {
        Ok(_) => s.is_empty(),
        Err(_) => false,
    }
}

fn bytes_item(data: &[u8]) -> Result<(&[u8], &[u8]), RefErr> {
    if data.is_empty() {
        return Err(RefErr::ItemCount);
    }
    let (list, payload, _whole, rest) = rlp::split(data).map_err(conv)?;
    if list {
        return Err(RefErr::ItemKind);
    }
    Ok((payload, rest))
}

fn uint_item(data: &[u8], max: usize) -> Result<(u64, &[u8]), RefErr> {
    let (p, rest) = bytes_item(data)?;
    Ok((rlp::uint(p, max).map_err(conv)?, rest))
}

pub fn decode(data: &[u8]) -> Result<RMsg, RefErr> {
    if data.len() < 3 {
        return Err(RefErr::TooShort);
    }
    let t = data[0];
    let body = &data[1..];
    let (list, off, len) = rlp::header(body).map_err(|e| match e {
        RlpErr::Short => RefErr::OuterLength,
        o => conv(o),
    })?;
    if !list {
        return Err(RefErr::OuterNotList);
    }
    if off + len != body.len() {
        return Err(RefErr::OuterLength);
    }
    if !(1..=6).contains(&t) {
        return Err(RefErr::UnknownType);
    }
    let p = &body[off..];
    let (id, p) = bytes_item(p)?;
    if id.len() > 8 {
        return Err(RefErr::IdTooLong);
    }
    let id = id.to_vec();
    let done = |rest: &[u8]| if rest.is_empty() { Ok(()) } else { Err(RefErr::ItemCount) };
    match t {
        1 => {
            let (enr_seq, p) = uint_item(p, 8)?;
            done(p)?;
            Ok(RMsg::Ping { id, enr_seq })
        }
        2 => {
            let (enr_seq, p) = uint_item(p, 8)?;
            let (ipb, p) = bytes_item(p)?;
            let ip: IpAddr = match ipb.len() {
                4 => IpAddr::from(<[u8; 4]>::try_from(ipb).unwrap()),
                16 => IpAddr::from(<[u8; 16]>::try_from(ipb).unwrap()),
                _ => return Err(RefErr::IpLength),
            };
            let (port, p) = uint_item(p, 2)?;
            if port == 0 {
                return Err(RefErr::PortZero);
            }
            done(p)?;
            Ok(RMsg::Pong { id, enr_seq, ip, port: port as u16 })
        }
        3 => {
            if p.is_empty() {
                return Err(RefErr::ItemCount);
            }
            let (list, mut inner, _w, rest) = rlp::split(p).map_err(conv)?;
            if !list {
                return Err(RefErr::ItemKind);
            }
            let mut distances = Vec::new();
            while !inner.is_empty() {
                let (d, r) = uint_item(inner, 8)?;
                if d > 256 {
                    return Err(RefErr::DistanceTooLarge);
                }
                distances.push(d);
                inner = r;
            }
            done(rest)?;
            Ok(RMsg::FindNode { id, distances })
        }
        4 => {
            let (total, p) = uint_item(p, 8)?;
            if p.is_empty() {
                return Err(RefErr::ItemCount);
            }
            // The record list: judged leniently on its own length prefix (reported separately)
            let (list, off, len) = match rlp::header(p) {
                Ok(h) => h,
                // list header announcing more than is there: judged like an inconsistent length below
                Err(RlpErr::Short) => {
                    let b = p[0];
                    if b < 0xc0 {
                        return Err(RefErr::ItemKind);
                    }
                    let off = if b >= 0xf8 { 1 + (b - 0xf7) as usize } else { 1 };
                    if off > p.len() {
                        return Err(RefErr::Truncated);
                    }
                    (true, off, p.len() + 1)
                }
                Err(o) => return Err(conv(o)),
            };
            if !list {
                return Err(RefErr::ItemKind);
            }
            if off + len != p.len() {
                // The record list's own length disagrees with what follows. Tolerated (a counted
                // leniency) only if everything after the list header is a sequence of valid signed
                // records; anything else in there is junk that the statement says must be rejected.
                let mut rest = &p[off..];
                while !rest.is_empty() {
                    match rlp::split(rest) {
                        Ok((true, _p, whole, r)) if record_valid(whole) => rest = r,
                        _ => return Err(RefErr::RecordInvalid),
                    }
                }
                return Err(RefErr::NodesInnerLength);
            }
            let mut inner = &p[off..];
            let mut records = Vec::new();
            while !inner.is_empty() {
                let (l, _payload, whole, rest) = rlp::split(inner).map_err(|_| RefErr::RecordInvalid)?;
                if !l || !record_valid(whole) {
                    return Err(RefErr::RecordInvalid);
                }
                records.push(whole.to_vec());
                inner = rest;
            }
            Ok(RMsg::Nodes { id, total, records })
        }
        5 => {
            let (protocol, p) = bytes_item(p)?;
            let (request, p) = bytes_item(p)?;
            done(p)?;
            Ok(RMsg::TalkReq { id, protocol: protocol.to_vec(), request: request.to_vec() })
        }
        6 => {
            let (response, p) = bytes_item(p)?;
            done(p)?;
            Ok(RMsg::TalkResp { id, response: response.to_vec() })
        }
        _ => Err(RefErr::UnknownType),
    }
}
