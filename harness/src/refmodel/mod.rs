pub mod message;
pub mod packet;
pub mod rlp;
