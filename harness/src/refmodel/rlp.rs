//! Minimal canonical RLP reader/writer written for the harness from the Ethereum yellow-paper
//! definition (shares no code with the crate under test or with alloy-rlp).

#[derive(Clone, Debug, PartialEq, Eq, Hash, serde::Serialize, serde::Deserialize)]
pub enum Item {
    Bytes(#[serde(with = "crate::ids::hexvec")] Vec<u8>),
    List(Vec<Item>),
    /// already-encoded bytes inserted verbatim (records, deliberately broken fragments)
    Raw(#[serde(with = "crate::ids::hexvec")] Vec<u8>),
}

fn len_prefix(out: &mut Vec<u8>, len: usize, short: u8, long: u8) {
    if len < 56 {
        out.push(short + len as u8);
    } else {
        let be = (len as u64).to_be_bytes();
        let skip = be.iter().take_while(|b| **b == 0).count();
        out.push(long + (8 - skip) as u8);
        out.extend_from_slice(&be[skip..]);
    }
}

pub fn encode(item: &Item, out: &mut Vec<u8>) {
    match item {
        Item::Bytes(b) => {
            if b.len() == 1 && b[0] < 0x80 {
                out.push(b[0]);
            } else {
                len_prefix(out, b.len(), 0x80, 0xb7);
                out.extend_from_slice(b);
            }
        }
        Item::List(items) => {
            let mut body = Vec::new();
            for i in items {
                encode(i, &mut body);
            }
            len_prefix(out, body.len(), 0xc0, 0xf7);
            out.extend_from_slice(&body);
        }
        Item::Raw(r) => out.extend_from_slice(r),
    }
}

pub fn encode_uint(v: u64) -> Item {
    let be = v.to_be_bytes();
    let skip = be.iter().take_while(|b| **b == 0).count();
    Item::Bytes(be[skip..].to_vec())
}

#[derive(Clone, Debug, PartialEq, Eq)]
pub enum RlpErr {
    Short,
    NonCanonical,
    Overflow,
}

/// A decoded header: (is_list, payload offset, payload length). Strictly canonical.
pub fn header(data: &[u8]) -> Result<(bool, usize, usize), RlpErr> {
    let b = *data.first().ok_or(RlpErr::Short)?;
    let (list, off, len) = match b {
        0x00..=0x7f => (false, 0usize, 1usize),
        0x80..=0xb7 => {
            let len = (b - 0x80) as usize;
            if len == 1 {
                let v = *data.get(1).ok_or(RlpErr::Short)?;
                if v < 0x80 {
                    return Err(RlpErr::NonCanonical);
                }
            }
            (false, 1, len)
        }
        0xb8..=0xbf | 0xf8..=0xff => {
            let list = b >= 0xf8;
            let ll = (b - if list { 0xf7 } else { 0xb7 }) as usize;
            let lb = data.get(1..1 + ll).ok_or(RlpErr::Short)?;
            if lb[0] == 0 {
                return Err(RlpErr::NonCanonical);
            }
            if ll > 8 {
                return Err(RlpErr::Overflow);
            }
            let mut len: u64 = 0;
            for x in lb {
                len = (len << 8) | *x as u64;
            }
            if len < 56 {
                return Err(RlpErr::NonCanonical);
            }
            if len > usize::MAX as u64 / 2 {
                return Err(RlpErr::Overflow);
            }
            (list, 1 + ll, len as usize)
        }
        0xc0..=0xf7 => (true, 1, (b - 0xc0) as usize),
    };
    if data.len() < off + len {
        return Err(RlpErr::Short);
    }
    Ok((list, off, len))
}

/// Splits one item off the front: returns (is_list, payload, whole item bytes, rest).
pub fn split(data: &[u8]) -> Result<(bool, &[u8], &[u8], &[u8]), RlpErr> {
    let (list, off, len) = header(data)?;
    Ok((list, &data[off..off + len], &data[..off + len], &data[off + len..]))
}

/// Canonical unsigned integer from a byte-string payload.
pub fn uint(payload: &[u8], max_bytes: usize) -> Result<u64, RlpErr> {
    if payload.first() == Some(&0) {
        return Err(RlpErr::NonCanonical);
    }
    if payload.len() > max_bytes {
        return Err(RlpErr::Overflow);
    }
    let mut v = 0u64;
    for b in payload {
        v = (v << 8) | *b as u64;
    }
    Ok(v)
}
