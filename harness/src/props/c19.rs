//! C19 - Encryption nonces are never reused.

use crate::{
    engines::{wire::*, wire_interp::*},
    props::wire_gen,
    runner::{CaseReport, Property, Tier},
};
use discv5::{packet::PacketKind, verif as hv};
use proptest::prelude::*;
use serde::{Deserialize, Serialize};
use std::collections::HashMap;

#[derive(Clone, Debug, PartialEq, Eq, Hash, Serialize, Deserialize)]
pub struct Case {
    pub cfg: WireConfig,
    pub ops: Vec<Op>,
    /// companion: one session on its own encrypting a very long history; the wire schedule is not run
    #[serde(default)]
    pub session: Option<LongSession>,
}

/// One `Session` (hook `VSession`) that encrypts `messages` different messages under one key.
#[derive(Clone, Debug, PartialEq, Eq, Hash, Serialize, Deserialize)]
pub struct LongSession {
    pub key: u8,
    pub messages: u32,
    /// plaintext length class
    pub len: u8,
}

fn run_long_session(c: &LongSession, rep: &mut CaseReport) {
    let mut ek = [c.key; 16];
    ek[1] = 0x19;
    let dk = [c.key ^ 0xff; 16];
    let mut s = hv::VSession::new(ek, dk);
    let src = crate::ids::node_id(&crate::keys::id_of(3));
    let mut seen: HashMap<[u8; 12], u32> = HashMap::with_capacity(c.messages as usize);
    let len = [1usize, 12, 40, 200][c.len as usize % 4];
    let mut msg = vec![0u8; len.max(4)];
    rep.class("long-session-companion");
    for j in 0..c.messages {
        msg[..4].copy_from_slice(&j.to_be_bytes());
        let (nonce, aad, cipher) = match s.encrypt_message(src, &msg) {
            Ok(x) => x,
            Err(e) => {
                rep.fail("nonce/long-session-encryption-failed", format!("message {j} of one session could not be encrypted: {e}"));
                return;
            }
        };
        if j % 4096 == 0 && hv::decrypt_message(&ek, nonce, &cipher, &aad).ok().as_deref() != Some(&msg[..]) {
            rep.fail("nonce/long-session-not-under-the-session-key", format!("message {j} of the session does not decrypt under the session's encryption key"));
            return;
        }
        if let Some(prev) = seen.insert(nonce, j) {
            rep.fail(
                "nonce/reused-under-one-key",
                format!("one session encrypted two different messages (#{prev} and #{j} of {}) with the nonce {} under one key", c.messages, hex::encode(nonce)),
            );
            return;
        }
    }
    rep.nontrivial = c.messages >= 65_536;
    if c.messages >= 65_536 {
        rep.class("long-session-companion/>=65536-messages-under-one-key");
    }
    rep.count("long-session-messages", c.messages as u64);
}

pub struct C19;

#[derive(Default)]
pub struct Nonces {
    largest_group: usize,
    most_whoareyous: usize,
    group_with_rekey_or_retx: bool,
    retransmissions: u64,
    undecryptable: u64,
    keys: usize,
}

impl Oracle for Nonces {
    fn after_step(&mut self, _w: &World, _op: &Op) -> Option<(String, String)> {
        None
    }

    fn finish(&mut self, w: &World) -> Option<(String, String)> {
        for (i, _) in w.nodes.iter().enumerate() {
            // group by authenticating key
            let mut groups: HashMap<[u8; 16], Vec<&Datagram>> = HashMap::new();
            let mut id_nonces: HashMap<[u8; 16], usize> = HashMap::new();
            for d in w.log.iter().filter(|d| d.from_node == Some(i)) {
                let Some((p, aad)) = &d.decoded else { continue };
                match &p.kind {
                    PacketKind::WhoAreYou { id_nonce, .. } => {
                        // the log holds what the node itself emitted (network duplicates are injections,
                        // not emissions): two emitted WHOAREYOUs with one id-nonce are a repeat, whether
                        // or not the rest of the packet is the same
                        if let Some(prev) = id_nonces.insert(*id_nonce, d.idx) {
                            return Some((
                                "nonce/id-nonce-repeated".into(),
                                format!(
                                    "node {i} emitted two WHOAREYOU packets (#{prev}, #{}) with the id-nonce {}{}",
                                    d.idx,
                                    hex::encode(id_nonce),
                                    if w.log[prev].bytes == d.bytes { " (byte-identical packets)" } else { "" }
                                ),
                            ));
                        }
                    }
                    _ => {
                        let mut found = false;
                        for k in &w.keys_seen[i] {
                            if hv::decrypt_message(k, p.message_nonce, &p.message, aad).is_ok() {
                                groups.entry(*k).or_default().push(d);
                                found = true;
                                break;
                            }
                        }
                        if !found {
                            self.undecryptable += 1;
                        }
                    }
                }
            }
            self.keys += groups.len();
            self.most_whoareyous = self.most_whoareyous.max(id_nonces.len());
            for (k, ds) in &groups {
                let mut by_nonce: HashMap<[u8; 12], &Datagram> = HashMap::new();
                let mut retx = false;
                for d in ds {
                    let n = d.decoded.as_ref().unwrap().0.message_nonce;
                    if let Some(prev) = by_nonce.get(&n) {
                        if prev.bytes != d.bytes {
                            return Some((
                                "nonce/reused-under-one-key".into(),
                                format!(
                                    "node {i} encrypted two different datagrams (#{}, #{}) with nonce {} under the session key {}..",
                                    prev.idx, d.idx, hex::encode(n), hex::encode(&k[..4])
                                ),
                            ));
                        }
                        retx = true;
                        self.retransmissions += 1;
                    } else {
                        by_nonce.insert(n, d);
                    }
                }
                self.largest_group = self.largest_group.max(ds.len());
                // does the group span a re-key? (another key of the same node towards the same address)
                let addr = ds[0].to_addr;
                let rekey = groups.iter().any(|(k2, d2)| k2 != k && d2[0].to_addr == addr);
                if ds.len() >= 20 && (rekey || retx) {
                    self.group_with_rekey_or_retx = true;
                }
            }
        }
        None
    }

    fn report(&self, _w: &World, rep: &mut CaseReport) {
        rep.nontrivial = self.group_with_rekey_or_retx || self.most_whoareyous > 64 || self.largest_group > 256;
        if self.most_whoareyous > 64 {
            rep.class("node-emitted>64-whoareyous");
        }
        if self.largest_group > 256 {
            rep.class("group>256-datagrams");
        }
        rep.count("retransmissions", self.retransmissions);
        rep.count("undecryptable(random packets)", self.undecryptable);
        rep.count("session-keys", self.keys as u64);
        if self.largest_group >= 50 {
            rep.class("group>=50-datagrams");
        }
        if self.largest_group >= 20 {
            rep.class("group>=20-datagrams");
        }
    }
}

impl Property for C19 {
    type Case = Case;
    const ID: &'static str = "C19";
    fn cases(tier: Tier) -> u64 {
        tier.pick(8_000, 150_000)
    }
    fn strategy(tier: Tier) -> BoxedStrategy<Case> {
        let n = tier.pick(30usize, 60usize);
        let wire = wire_gen::config_strategy(false)
            .prop_flat_map(move |cfg| {
                let np = cfg.n_peers;
                let nn = 1 + np;
                // bursts of requests in one session + ordinary faulty-network ops
                let burst = (0u8..nn, 0u8..nn, 2u8..25, prop_oneof![Just(Body::Ping), Just(Body::Talk(3)), Just(Body::FindNode(1))])
                    .prop_map(|(from, to, k, body)| {
                        let mut v: Vec<Op> = (0..k).map(|_| Op::Submit { from, to, body, with_record: true }).collect();
                        v.push(Op::DeliverAll);
                        v
                    });
                // a long burst inside one session (message counters far beyond one byte)
                let long_burst = (0u8..nn, 0u8..nn, 260u16..330).prop_map(|(from, to, k)| {
                    let mut v: Vec<Op> = Vec::new();
                    for j in 0..k {
                        v.push(Op::Submit { from, to, body: Body::Ping, with_record: true });
                        if j % 16 == 15 {
                            v.push(Op::DeliverAll);
                        }
                    }
                    v.push(Op::DeliverAll);
                    v
                });
                // many WHOAREYOUs from one node: undecryptable packets claiming distinct source ids
                let probe_burst = (66u16..260, 0u8..3).prop_map(|(k, z)| (0..k).map(|j| Op::Probe { x: XSel::Random((j % 256) as u8), z: z + (j / 256) as u8 }).collect::<Vec<_>>());
                let frag = prop_oneof![
                    30 => burst,
                    40 => wire_gen::op_strategy(np, wire_gen::Mix::Faulty).prop_map(|o| vec![o]),
                    1 => long_burst,
                    1 => probe_burst,
                ];
                (Just(cfg), proptest::collection::vec(frag, 1..n).prop_map(|v| v.into_iter().flatten().collect::<Vec<_>>()))
            })
            .prop_map(|(mut cfg, ops)| {
                cfg.resp_mode.iter_mut().for_each(|m| *m = AppMode::Immediate);
                if ops.iter().filter(|o| matches!(o, Op::Probe { .. })).count() > 60 {
                    // V's application answers who-are-you queries at once, so that every probe is challenged
                    cfg.wru_mode[0] = AppMode::Immediate;
                }
                Case { cfg, ops, session: None }
            })
            .boxed();
        let hi = tier.pick(400_000u32, 1_200_000u32);
        let long = (wire_gen::config_strategy(false), any::<u8>(), prop_oneof![1 => 1000u32..65_536, 6 => 150_000u32..hi], 0u8..4)
            .prop_map(|(cfg, key, messages, len)| Case { cfg, ops: vec![], session: Some(LongSession { key, messages, len }) });
        prop_oneof![400 => wire, 1 => long].boxed()
    }
    fn run(case: &Case) -> CaseReport {
        let mut rep = CaseReport::default();
        if let Some(ls) = &case.session {
            run_long_session(ls, &mut rep);
            return rep;
        }
        let mut o = Nonces::default();
        run_case_blocking(case.cfg.clone(), &case.ops, Drain::Answering, &mut o, &mut rep);
        rep
    }
    fn rule() -> String {
        "long schedules among 2..4 real handlers: bursts of 2..24 requests (multi-packet NODES answers included) inside one session interleaved with loss, duplication, delay across timeouts (retransmissions), challenges from both sides, restarts (re-keying, re-encryption of in-flight requests) and record-less contacts; at the end all datagrams every node emitted are grouped by the session key that authenticates them (keys from probe snapshots, trial decryption): inside a group two datagrams with the same 12-byte nonce must be byte-identical; the id-nonces of a node's WHOAREYOUs are pairwise different. In about one case in 3 the schedule also contains a burst of 260..330 requests inside one session or 66..260 undecryptable packets claiming distinct source ids (one WHOAREYOU each). One case in 401 is a companion on a session of its own (hook VSession around the real Session::encrypt_message): 150 000..400 000 (thorough: ..1 200 000) different messages are encrypted under one key and no 12-byte nonce may repeat - histories long enough that a nonce space of 2^32 or less shows. Non-trivial = a key group of >= 20 datagrams that contains a retransmission or belongs to a peer relation that was re-keyed, a key group of more than 256 datagrams, or a node that emitted more than 64 WHOAREYOUs.".into()
    }
    fn assumptions() -> Vec<String> {
        vec![
            "black-box uniqueness detects structural nonce reuse and nonce spaces of up to about 2^36 (the long-session companion), not a loss of entropy that keeps nonces distinct at that scale".into(),
            "datagrams that decrypt under no key seen in a snapshot are random packets (or belong to a session that lived less than one step) and are counted, not judged".into(),
        ]
    }
}
