//! C08 - Closest-node and distance lookups are exact (oracle: sorted full scan).

use crate::{
    engines::table::*,
    ids::{self, Id},
    runner::{CaseReport, Property, Tier},
};
use discv5::kbucket::Key;
use proptest::prelude::*;
use serde::{Deserialize, Serialize};
use std::collections::HashSet;

#[derive(Clone, Debug, PartialEq, Eq, Hash, Serialize, Deserialize)]
pub enum Target {
    Local,
    Stored(u16),
    /// L XOR d with log2(d) = class (0 = L itself), low bits from a pattern
    Class { class: u16, pat: u8 },
    Random(#[serde(with = "crate::ids::hex32")] [u8; 32]),
}

#[derive(Clone, Copy, Debug, PartialEq, Eq, Hash, Serialize, Deserialize)]
pub enum Pred {
    Parity,
    Less(u32),
    Always,
    Never,
}

impl Pred {
    fn eval(&self, v: u32) -> bool {
        match self {
            Pred::Parity => v % 2 == 0,
            Pred::Less(c) => v < *c,
            Pred::Always => true,
            Pred::Never => false,
        }
    }
}

#[derive(Clone, Debug, PartialEq, Eq, Hash, Serialize, Deserialize)]
pub enum Query {
    ClosestKeys(Target),
    ClosestValues(Target),
    ClosestPred(Target, Pred),
    ByDist { ds: Vec<u64>, cap: u8 },
}

#[derive(Clone, Debug, PartialEq, Eq, Hash, Serialize, Deserialize)]
pub struct Case {
    pub cfg: TableConfig,
    pub ops: Vec<TOp>,
    pub queries: Vec<Query>,
}

pub struct C08;

fn target_strategy() -> BoxedStrategy<Target> {
    prop_oneof![
        1 => Just(Target::Local),
        3 => any::<u16>().prop_map(Target::Stored),
        8 => (0u16..=256, 0u8..7).prop_map(|(class, pat)| Target::Class { class, pat }),
        2 => any::<[u8; 32]>().prop_map(Target::Random),
    ]
    .boxed()
}

fn pred_strategy() -> BoxedStrategy<Pred> {
    prop_oneof![Just(Pred::Parity), (0u32..5).prop_map(Pred::Less), Just(Pred::Always), Just(Pred::Never)].boxed()
}

fn dist_strategy() -> BoxedStrategy<Vec<u64>> {
    let d = prop_oneof![
        6 => 1u64..=8,
        4 => 250u64..=256,
        4 => 1u64..=256,
        1 => Just(0u64),
        1 => 257u64..=300,
        1 => any::<u64>(),
        // out of range, but equal to an in-range distance in their low 8 / 16 / 32 bits
        1 => (1u64..=256, prop_oneof![Just(8u32), Just(16u32), Just(32u32), Just(40u32)], 1u64..1000).prop_map(|(low, sh, k)| low.wrapping_add(k << sh)).prop_filter("out of range", |x| *x > 256),
    ];
    prop_oneof![
        4 => proptest::collection::vec(d, 1..8),
        // adjacent runs as the service requests them
        2 => (1u64..=256, 1usize..6).prop_map(|(s, n)| (0..n as u64).map(|i| s + i).filter(|x| *x <= 256).collect::<Vec<_>>()),
    ]
    .prop_filter("non-empty", |v| !v.is_empty())
    .boxed()
}

fn query_strategy() -> BoxedStrategy<Query> {
    prop_oneof![
        4 => target_strategy().prop_map(Query::ClosestKeys),
        2 => target_strategy().prop_map(Query::ClosestValues),
        2 => (target_strategy(), pred_strategy()).prop_map(|(t, p)| Query::ClosestPred(t, p)),
        3 => (dist_strategy(), prop_oneof![10 => 1u8..40, 1 => 250u8..=251]).prop_map(|(ds, cap)| Query::ByDist { ds, cap }),
    ]
    .boxed()
}

fn scan(t: &Table) -> Vec<(Id, u32)> {
    t.iter_ref().map(|e| (e.node.key.preimage().raw(), *e.node.value)).collect()
}

fn resolve(target: &Target, local: &Id, t: &Table) -> Id {
    match target {
        Target::Local => *local,
        Target::Stored(sel) => {
            let s = scan(t);
            if s.is_empty() {
                *local
            } else {
                s[(*sel as usize * s.len()) >> 16].0
            }
        }
        Target::Class { class, pat } => ids::xor(local, &ids::class_offset(*class, *pat)),
        Target::Random(r) => *r,
    }
}

/// Compares a `closest_*` output with the sorted full scan. Returns (signature, detail).
pub fn check_closest(local: &Id, target: &Id, got: &[(Id, Option<u32>, Option<bool>)], scan: &[(Id, u32)], pred: Option<Pred>) -> Option<(String, String)> {
    let mut expect: Vec<(Id, u32)> = scan.to_vec();
    expect.sort_by_key(|(id, _)| ids::xor(id, target));
    // duplicates
    let mut seen = HashSet::new();
    for (id, _, _) in got {
        if !seen.insert(*id) {
            let b = ids::log2(local, id);
            let which = if b == 1 { "bucket0" } else { "other-bucket" };
            return Some((
                format!("closest/duplicate-key/{which}"),
                format!("key {} (bucket {}) yielded twice for target {} (log2 distance local-target {})",
                    ids::hex_id(id), b as i32 - 1, ids::hex_id(target), ids::log2(local, target)),
            ));
        }
    }
    if got.len() != expect.len() {
        return Some((
            "closest/missing-or-extra".into(),
            format!("closest returned {} keys, the table holds {} (target {})", got.len(), expect.len(), ids::hex_id(target)),
        ));
    }
    for (i, ((gid, gv, gp), (eid, ev))) in got.iter().zip(expect.iter()).enumerate() {
        if gid != eid {
            return Some((
                "closest/wrong-order-or-key".into(),
                format!("position {i}: got {} expected {} (target {}, log2 distance local-target {})",
                    ids::hex_id(gid), ids::hex_id(eid), ids::hex_id(target), ids::log2(local, target)),
            ));
        }
        if let Some(v) = gv {
            if v != ev {
                return Some(("closest/wrong-value".into(), format!("key {}: value {v} expected {ev}", ids::hex_id(gid))));
            }
            if let (Some(p), Some(flag)) = (pred, gp) {
                if p.eval(*ev) != *flag {
                    return Some(("closest/wrong-predicate-flag".into(), format!("key {}: flag {flag} for value {ev} under {p:?}", ids::hex_id(gid))));
                }
            }
        }
    }
    None
}

pub fn check_bydist(local: &Id, ds: &[u64], cap: usize, got: &[Id], scan: &[(Id, u32)]) -> Option<(String, String)> {
    let valid: HashSet<u64> = ds.iter().copied().filter(|d| (1..=256).contains(d)).collect();
    let mut seen = HashSet::new();
    for id in got {
        let l = ids::log2(local, id) as u64;
        if !valid.contains(&l) {
            return Some(("bydist/off-distance".into(), format!("returned key {} at log2 distance {l}, requested {ds:?}", ids::hex_id(id))));
        }
        if !seen.insert(*id) {
            return Some(("bydist/duplicate".into(), format!("key {} returned twice for {ds:?}", ids::hex_id(id))));
        }
        if !scan.iter().any(|(s, _)| s == id) {
            return Some(("bydist/not-stored".into(), format!("key {} is not in the table", ids::hex_id(id))));
        }
    }
    let eligible = scan.iter().filter(|(id, _)| valid.contains(&(ids::log2(local, id) as u64))).count();
    let want = eligible.min(cap);
    if got.len() != want {
        return Some((
            "bydist/wrong-count".into(),
            format!("returned {} nodes for {ds:?} cap {cap}; {eligible} stored nodes are at those distances", got.len()),
        ));
    }
    None
}

pub fn run_case(case: &Case) -> CaseReport {
    let mut rep = CaseReport::default();
    let local = case.cfg.local;
    let mut t = new_table(&case.cfg);
    for op in &case.ops {
        for e in expand(op) {
            let _ = apply(&mut t, &local, &e);
        }
    }
    let occupied: Vec<usize> = observe(&t).iter().enumerate().filter(|(_, b)| !b.nodes.is_empty()).map(|(i, _)| i).collect();
    let low_occupied = occupied.iter().any(|i| *i <= 3);
    let has_pending = observe(&t).iter().any(|b| b.pending.is_some());
    if has_pending {
        rep.class("table-with-pending-node");
    }
    let mut nontrivial = false;
    for q in &case.queries {
        match q {
            Query::ClosestKeys(tg) | Query::ClosestValues(tg) | Query::ClosestPred(tg, _) => {
                let target = resolve(tg, &local, &t);
                let tk: Key<discv5::enr::NodeId> = key_of(&target);
                let (got, pred): (Vec<(Id, Option<u32>, Option<bool>)>, Option<Pred>) = match q {
                    Query::ClosestKeys(_) => (t.closest_keys(&tk).map(|k| (k.preimage().raw(), None, None)).collect(), None),
                    Query::ClosestValues(_) => (
                        t.closest_values(&tk).map(|v| (v.key.preimage().raw(), Some(v.value), None)).collect(),
                        None,
                    ),
                    Query::ClosestPred(_, p) => {
                        let p2 = *p;
                        (
                            t.closest_values_predicate(&tk, move |v| p2.eval(*v))
                                .map(|v| (v.key.preimage().raw(), Some(v.value), Some(v.predicate_match)))
                                .collect(),
                            Some(*p),
                        )
                    }
                    _ => unreachable!(),
                };
                let sc = scan(&t);
                let d = ids::xor(&local, &target);
                let lowbits = (0..4).any(|i| ids::bit(&d, i));
                if occupied.len() >= 2 && low_occupied && lowbits {
                    nontrivial = true;
                }
                rep.count(format!("target-class-{:03}", ids::log2(&local, &target)), 1);
                if let Some((sig, detail)) = check_closest(&local, &target, &got, &sc, pred) {
                    rep.fail(sig, detail);
                    break;
                }
            }
            Query::ByDist { ds, cap } => {
                let dedup: HashSet<u64> = ds.iter().copied().collect();
                // caps 250 and 251 stand for "no limit" values a caller may configure
                let cap_n: usize = match *cap {
                    250 => usize::MAX,
                    251 => usize::MAX / 2,
                    c => c as usize,
                };
                if *cap >= 250 {
                    rep.class("bydist-huge-cap");
                }
                let got: Vec<Id> = t.nodes_by_distances(ds, cap_n).into_iter().map(|e| e.node.key.preimage().raw()).collect();
                if dedup.len() != ds.len() {
                    rep.exclude("bydist-duplicate-distances(assertion-free)", 1);
                    continue;
                }
                let sc = scan(&t);
                if let Some((sig, detail)) = check_bydist(&local, ds, cap_n, &got, &sc) {
                    rep.fail(sig, detail);
                    break;
                }
                if ds.iter().any(|d| *d == 0 || *d > 256) {
                    rep.class("bydist-out-of-range-value");
                }
                if !got.is_empty() {
                    rep.class("bydist-nonempty");
                    if got.len() == cap_n {
                        rep.class("bydist-capped");
                    }
                }
            }
        }
    }
    rep.nontrivial = nontrivial;
    if low_occupied {
        rep.class("bucket<=3-occupied");
    }
    if occupied.contains(&0) {
        rep.class("bucket0-occupied");
    }
    rep
}

impl Property for C08 {
    type Case = Case;
    const ID: &'static str = "C08";
    fn cases(tier: Tier) -> u64 {
        tier.pick(60_000, 1_000_000)
    }
    fn strategy(tier: Tier) -> BoxedStrategy<Case> {
        let nq = tier.pick(12usize, 40usize);
        // focus: always one low bucket (0..3) plus up to three others
        let focus = (0u8..4, proptest::collection::vec(proptest::sample::select(CLASS_BUCKETS.to_vec()), 0..4))
            .prop_map(|(low, mut rest)| {
                rest.push(low);
                rest
            });
        (config_strategy(), focus)
            .prop_flat_map(move |(cfg, focus)| {
                (
                    Just(cfg),
                    proptest::collection::vec(op_strategy(focus), 1..60),
                    proptest::collection::vec(query_strategy(), 1..=nq),
                )
            })
            .prop_map(|(cfg, ops, queries)| Case { cfg, ops, queries })
            .boxed()
    }
    fn run(case: &Case) -> CaseReport {
        run_case(case)
    }
    fn rule() -> String {
        "a table reached by a generated op history (same ops as C07, focus always including one of buckets 0..3, pending nodes included), then up to 12 (quick) / 40 (thorough) lookups: closest_keys / closest_values / closest_values_predicate for targets in {local id, a stored key, L^d for every log2 class 0..256 with low-bit patterns, random ids} compared element by element with the full scan (iter_ref after the call) sorted by XOR distance computed by the harness; nodes_by_distances for distance lists (adjacent runs, scattered, 0 and >256 mixed in) and caps 1..39 (plus the 'no limit' caps usize::MAX and usize::MAX / 2) compared with the scan. Non-trivial = >=2 occupied buckets incl. one of index <=3 and a target whose distance to the local id has one of bits 0..3 set.".into()
    }
    fn assumptions() -> Vec<String> {
        vec![
            "XOR distances and log2 classes are computed by the harness's own 256-bit arithmetic".into(),
            "distance lists with duplicate entries are generated but not asserted on (the statement speaks of distinct distances)".into(),
        ]
    }
}
