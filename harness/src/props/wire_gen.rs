//! Strategies for wire-engine configurations and op mixes.

use crate::engines::wire::*;
use proptest::prelude::*;

#[derive(Clone, Copy, Debug, PartialEq, Eq)]
pub enum Mix {
    /// honest peers + faulty network (C04, C19)
    Faulty,
    /// + error paths that touch exemptions (C13)
    Exemptions,
    /// impersonation attempts (C01)
    Identity,
    /// replays of handshakes / WHOAREYOUs (C03)
    Replay,
    /// corruption / splicing / redirection (C02)
    Tamper,
}

pub fn config_strategy(allow_filter: bool) -> BoxedStrategy<WireConfig> {
    let mode = || prop_oneof![3 => Just(AppMode::Immediate), 1 => Just(AppMode::Manual)];
    let know = || prop_oneof![3 => Just(Know::Current), 1 => Just(Know::Older), 1 => Just(Know::Nothing)];
    (
        1u8..=3,
        0u8..=3,
        if allow_filter { any::<bool>().boxed() } else { Just(false).boxed() },
        proptest::collection::vec(mode(), 4),
        proptest::collection::vec(know(), 4),
        proptest::collection::vec(mode(), 4),
        1u8..=5,
        proptest::collection::vec(1u8..=3, 4),
    )
        .prop_map(|(n_peers, retries, filter, wru_mode, wru_know, resp_mode, nodes_packets, seqs)| WireConfig {
            n_peers,
            retries,
            filter,
            wru_mode,
            wru_know,
            resp_mode,
            nodes_packets,
            seqs,
            nat_peers: vec![],
            nat_kind: 0,
            dual_records: false,
            foreign_enr_answer: vec![],
            v_session_timeout_ms: None,
            v_session_capacity: None,
            v_dual_listen: false,
        })
        .boxed()
}

fn body() -> BoxedStrategy<Body> {
    prop_oneof![3 => Just(Body::Ping), 1 => Just(Body::FindNode0), 3 => (0u8..6).prop_map(Body::FindNode), 2 => (0u8..20).prop_map(Body::Talk)].boxed()
}

fn dt() -> BoxedStrategy<Dt> {
    prop_oneof![
        3 => Just(Dt::Ms1),
        3 => Just(Dt::TimeoutFrac40),
        2 => Just(Dt::Timeout),
        2 => Just(Dt::TimeoutPlus),
        2 => Just(Dt::Timeout2_5),
        1 => Just(Dt::Long),
    ]
    .boxed()
}

fn know() -> BoxedStrategy<Know> {
    prop_oneof![3 => Just(Know::Current), 1 => Just(Know::Older), 1 => Just(Know::Nothing)].boxed()
}

fn addr_sel() -> BoxedStrategy<AddrSel> {
    prop_oneof![3 => Just(AddrSel::Original), 2 => (0u8..3).prop_map(AddrSel::Attacker), 1 => (0u8..4).prop_map(AddrSel::Node), 2 => any::<u8>().prop_map(AddrSel::SameIpOtherPort), 1 => Just(AddrSel::MappedV6), 1 => Just(AddrSel::OtherAdvertised)].boxed()
}

fn xsel() -> BoxedStrategy<XSel> {
    prop_oneof![8 => (0u8..3).prop_map(XSel::Peer), 2 => (0u8..4).prop_map(XSel::Random), 1 => (0u8..2).prop_map(XSel::Ed)].boxed()
}

fn mutation() -> BoxedStrategy<Mutation> {
    prop_oneof![
        8 => (0u8..7, any::<u16>(), any::<bool>()).prop_map(|(region, pos, unmasked)| Mutation::FlipBit { region, pos, unmasked }),
        2 => prop_oneof![Just(0u16), 1u16..63, Just(63u16), any::<u16>()].prop_map(Mutation::TruncateTo),
        2 => prop_oneof![Just(1u8), Just(16u8), 1u8..40].prop_map(Mutation::TruncateBy),
        2 => (1u8..=64).prop_map(Mutation::Extend),
        1 => (any::<u16>(), any::<u8>()).prop_map(|(pos, val)| Mutation::InsertByte { pos, val }),
        1 => any::<u16>().prop_map(|pos| Mutation::DeleteByte { pos }),
        2 => any::<u16>().prop_map(|other| Mutation::SpliceBody { other }),
        1 => any::<u16>().prop_map(|other| Mutation::SpliceIv { other }),
        2 => any::<u16>().prop_map(|other| Mutation::SwapAuthData { other }),
        2 => (0u8..4).prop_map(|to| Mutation::Remask { to }),
        3 => any::<u8>().prop_map(|seed| Mutation::ReIv { seed }),
        3 => any::<u8>().prop_map(|n| Mutation::ExtendAuthData { n }),
        3 => (0u8..3).prop_map(|variant| Mutation::HandshakeRecord { variant }),
    ]
    .boxed()
}

fn forged_handshake() -> BoxedStrategy<Op> {
    let signer = prop_oneof![6 => (0u8..2).prop_map(Signer::Adv), 1 => Just(Signer::Garbage), 1 => Just(Signer::Empty), 1 => Just(Signer::Truncated), 2 => (0u8..2, 0u8..6).prop_map(|(j, t)| Signer::AdvExtended(j, t)), 2 => Just(Signer::Observed)];
    let eph = prop_oneof![6 => Just(EphKey::Valid), 1 => Just(EphKey::InvalidPoint), 1 => Just(EphKey::WrongLength)];
    let seq = prop_oneof![1 => Just(SeqSel::Zero), 1 => Just(SeqSel::BelowKnown), 1 => Just(SeqSel::EqualKnown), 3 => Just(SeqSel::AboveKnown), 1 => Just(SeqSel::Max)];
    let af = prop_oneof![2 => Just(AddrField::MatchingSource), 1 => Just(AddrField::Other), 1 => Just(AddrField::Absent)];
    let rec = prop_oneof![
        6 => ((0u8..2), seq, af).prop_map(|(key, seq, addr)| AttachedRecord::Own { key, seq, addr }),
        2 => Just(AttachedRecord::Genuine),
        1 => (0u8..3).prop_map(AttachedRecord::ThirdParty),
        1 => Just(AttachedRecord::None),
    ];
    let fb = prop_oneof![3 => Just(ForgedBody::Ping), 1 => Just(ForgedBody::FindNode), 1 => Just(ForgedBody::Talk), 1 => Just(ForgedBody::Garbage)];
    (xsel(), 0u8..3, signer, eph, rec, fb, prop_oneof![4 => Just(false), 1 => Just(true)])
        .prop_map(|(x, z, signer, eph, rec, body, spoof)| Op::ForgedHandshake { x, z, signer, eph, rec, body, spoof })
        .boxed()
}

pub fn op_strategy(n_peers: u8, mix: Mix) -> BoxedStrategy<Op> {
    let n = 1 + n_peers;
    let node = move || 0u8..n;
    let peer = move || 0u8..n_peers.max(1);
    let submit = (node(), node(), body(), prop_oneof![3 => Just(true), 1 => Just(false)])
        .prop_map(|(from, to, body, with_record)| Op::Submit { from, to, body, with_record });
    // V is the node under test: most requests originate there
    let submit_v = (node(), body(), prop_oneof![3 => Just(true), 1 => Just(false)])
        .prop_map(|(to, body, with_record)| Op::Submit { from: 0, to, body, with_record });
    let honest: Vec<(u32, BoxedStrategy<Op>)> = vec![
        (10, submit_v.boxed()),
        (6, submit.boxed()),
        (22, any::<u16>().prop_map(Op::Deliver).boxed()),
        (4, any::<u16>().prop_map(Op::Drop).boxed()),
        (3, any::<u16>().prop_map(Op::Dup).boxed()),
        (6, Just(Op::DeliverAll).boxed()),
        (8, dt().prop_map(Op::Advance).boxed()),
        (4, (node(), any::<u16>(), know()).prop_map(|(node, sel, know)| Op::AnswerWru { node, sel, know }).boxed()),
        (4, (node(), any::<u16>(), 1u8..=5).prop_map(|(node, sel, packets)| Op::Respond { node, sel, packets }).boxed()),
        (2, peer().prop_map(Op::Restart).boxed()),
        (1, (node(), any::<u16>()).prop_map(|(node, sel)| Op::RespondOtherKind { node, sel }).boxed()),
        (1, (node(), any::<u16>()).prop_map(|(node, sel)| Op::RespondWithForeignId { node, sel }).boxed()),
        (1, (node(), any::<u16>()).prop_map(|(node, sel)| Op::RespondHugeTotal { node, sel }).boxed()),
        (1, (peer(), node(), 0u8..3).prop_map(|(peer, to, variant)| Op::UndecodableMessage { peer, to, variant }).boxed()),
        (1, (peer(), any::<bool>(), prop_oneof![3 => Just(true), 1 => Just(false)]).prop_map(|(peer, ip, on)| Op::Ban { peer, ip, on }).boxed()),
    ];
    let probe = (xsel(), 0u8..3).prop_map(|(x, z)| Op::Probe { x, z }).boxed();
    let forged_msg = (xsel(), 0u8..3, prop_oneof![Just(ForgedBody::Ping), Just(ForgedBody::Talk), Just(ForgedBody::Garbage)])
        .prop_map(|(x, z, body)| Op::ForgedMessage { x, z, body })
        .boxed();
    let replay = (any::<u16>(), addr_sel()).prop_map(|(d, from)| Op::Replay { d, from }).boxed();
    let mutate = (any::<u16>(), mutation(), prop_oneof![5 => Just(AddrSel::Original), 1 => addr_sel()])
        .prop_map(|(d, m, from)| Op::Mutate { d, m, from })
        .boxed();
    let redirect = (any::<u16>(), node()).prop_map(|(d, to)| Op::Redirect { d, to }).boxed();
    let forged_wru = (any::<u16>(), addr_sel(), node(), prop_oneof![4 => Just(false), 1 => Just(true)])
        .prop_map(|(d, from, to, random_nonce)| Op::ForgedWhoAreYou { d, from, to, random_nonce })
        .boxed();
    let submit_att = (xsel(), 0u8..3, any::<bool>(), body())
        .prop_map(|(x, z, with_record, body)| Op::SubmitToAttacker { x, z, with_record, body })
        .boxed();
    let guessed = (peer(), node(), 0u8..3, prop_oneof![Just(ForgedBody::Ping), Just(ForgedBody::Talk)])
        .prop_map(|(peer, to, key, body)| Op::GuessedKeyMessage { peer, to, key, body })
        .boxed();
    let replay_hs = (prop_oneof![4 => Just(0u8), 2 => Just(1u8), 1 => 2u8..6], prop_oneof![3 => Just(AddrSel::Original), 1 => addr_sel()]).prop_map(|(nth, from)| Op::ReplayHandshake { nth, from }).boxed();
    let mut all = honest;
    match mix {
        Mix::Faulty => {
            // a little hostile traffic next to the faulty network: undecryptable packets that provoke
            // challenges, and handshakes that do not verify (from attacker addresses or a peer's own)
            all.push((1, probe));
            all.push((2, forged_handshake()));
        }
        Mix::Exemptions => {
            all.push((2, (node(), any::<u16>()).prop_map(|(node, sel)| Op::RespondOtherKind { node, sel }).boxed()));
            all.push((5, probe));
            all.push((7, forged_handshake()));
            all.push((2, forged_msg));
            all.push((4, replay));
            all.push((4, mutate));
            all.push((6, forged_wru));
            all.push((2, submit_att));
        }
        Mix::Identity => {
            all.push((2, guessed.clone()));
            all.push((12, probe));
            all.push((16, forged_handshake()));
            all.push((6, forged_msg));
            all.push((4, replay));
            all.push((2, replay_hs));
            all.push((3, forged_wru));
            all.push((3, submit_att));
        }
        Mix::Replay => {
            all.push((14, replay));
            all.push((3, (node(), any::<u16>(), any::<bool>()).prop_map(|(node, sel, handshaken_only)| Op::WhoAreYouForInflight { node, sel, handshaken_only }).boxed()));
            all.push((4, replay_hs));
            all.push((6, forged_wru));
            all.push((2, probe));
        }
        Mix::Tamper => {
            all.push((2, guessed.clone()));
            all.push((2, forged_handshake()));
            all.push((16, mutate));
            all.push((5, redirect));
            all.push((4, replay));
        }
    }
    proptest::strategy::Union::new_weighted(all).boxed()
}

/// Op lists built from fragments: single ops, or short attack sequences aimed at one (x, z) pair
/// (probe -> forged handshake -> forged message), so that the interesting multi-step shapes are
/// produced by construction.
pub fn ops_strategy(n_peers: u8, mix: Mix, max_fragments: usize) -> BoxedStrategy<Vec<Op>> {
    let single = op_strategy(n_peers, mix).prop_map(|o| vec![o]).boxed();
    let attack = (xsel(), 0u8..3, forged_handshake(), proptest::option::of(prop_oneof![Just(ForgedBody::Ping), Just(ForgedBody::Talk)]), proptest::collection::vec(op_strategy(n_peers, Mix::Faulty), 0..3))
        .prop_map(|(x, z, fh, follow, between)| {
            let mut v = vec![Op::Probe { x, z }];
            v.extend(between);
            if let Op::ForgedHandshake { signer, eph, rec, body, .. } = fh {
                v.push(Op::ForgedHandshake { x, z, signer, eph, rec, body, spoof: false });
            }
            if let Some(body) = follow {
                v.push(Op::ForgedMessage { x, z, body });
            }
            v
        })
        .boxed();
    let n = 1 + n_peers;
    // a complete honest exchange (establishes / uses a session)
    let exchange = (0u8..n, 0u8..n, body(), prop_oneof![4 => Just(true), 1 => Just(false)])
        .prop_map(|(from, to, body, with_record)| vec![Op::Submit { from, to, body, with_record }, Op::DeliverAll])
        .boxed();
    // a handshake that arrives after its challenge has expired, while the challenged peer kept
    // knocking in between: request -> WHOAREYOU -> handshake (held back) ... time ... a second request
    // of the same peer (undecryptable for the challenger, who still has no session) ... time ...
    // the held handshake is delivered more than a challenge lifetime after the WHOAREYOU
    let late_handshake = (0u8..n, 0u8..n, prop_oneof![Just(Dt::TimeoutFrac40), Just(Dt::Timeout)], 1usize..=3, any::<bool>(), any::<bool>())
        .prop_map(|(from, to, last, knocks, with_record, own_requests)| {
            let answer = |node: u8| Op::AnswerWru { node, sel: 0, know: Know::Current };
            let mut v = vec![Op::DeliverAll, Op::Submit { from, to, body: Body::Ping, with_record }, Op::Deliver(0), answer(to), Op::Deliver(0)];
            // the handshake is in the pool now and stays there
            v.push(Op::Advance(Dt::TimeoutFrac40));
            for k in 0..knocks {
                v.push(Op::Submit { from, to, body: Body::Ping, with_record });
                v.push(Op::Deliver(65535));
                v.push(answer(to));
                if own_requests {
                    // the challenger's application asks the challenged peer something itself (the request
                    // waits behind the challenge)
                    v.push(Op::Advance(Dt::TimeoutFrac40));
                    v.push(Op::Submit { from: to, to: from, body: if k % 2 == 0 { Body::Ping } else { Body::Talk(k as u8) }, with_record: true });
                }
            }
            v.push(Op::Advance(Dt::TimeoutFrac40));
            v.push(Op::Advance(last));
            v.push(Op::Deliver(0));
            v.push(Op::DeliverAll);
            v
        })
        .boxed();
    // V has an unanswered WHOAREYOU out for honest peer p AND (through its own request) a live
    // session with p; an on-path adversary then answers that WHOAREYOU in p's name from p's address
    let spoof_race = (0u8..n_peers.max(1), forged_handshake(), any::<bool>(), any::<bool>())
        .prop_map(|(p, fh, with_record, lost_challenge)| {
            let peer = 1 + p;
            // (needs V's application to answer who-are-you queries late: while the query for p's
            // first packet is held, V's own request establishes the session; then the query is
            // answered and the WHOAREYOU goes out although the session is live)
            let mut v = vec![
                Op::DeliverAll,
                Op::Submit { from: peer, to: 0, body: Body::Ping, with_record: true },
                Op::Deliver(0),
                Op::Submit { from: 0, to: peer, body: Body::Ping, with_record },
                Op::DeliverAll,
                Op::AnswerWru { node: 0, sel: 0, know: Know::Current },
            ];
            if lost_challenge {
                // variant: V answers at once and its WHOAREYOU is lost - a challenge is outstanding, no session
                v = vec![
                    Op::DeliverAll,
                    Op::Submit { from: peer, to: 0, body: Body::Ping, with_record: true },
                    Op::Deliver(0),
                    Op::AnswerWru { node: 0, sel: 0, know: Know::Current },
                    Op::Drop(0),
                ];
            }
            if let Op::ForgedHandshake { z, signer, eph, rec, body, .. } = fh {
                v.push(Op::ForgedHandshake { x: XSel::Peer(p), z, signer, eph, rec, body, spoof: true });
            }
            v.push(Op::DeliverAll);
            v
        })
        .boxed();
    // a genuine handshake packet of honest peer p is presented from another address BEFORE the
    // original reaches its destination (the challenge it answers is still outstanding)
    let early_replay = (0u8..n_peers.max(1), addr_sel(), any::<bool>())
        .prop_map(|(p, from, with_record)| {
            let peer = 1 + p;
            vec![
                Op::DeliverAll,
                Op::Submit { from: peer, to: 0, body: Body::Ping, with_record },
                Op::Deliver(0),
                Op::AnswerWru { node: 0, sel: 0, know: Know::Current },
                Op::Deliver(0),
                // the newest logged datagram is p's handshake packet
                Op::Replay { d: 65535, from },
                Op::DeliverAll,
            ]
        })
        .boxed();
    // a handshake packet is accepted, then presented again - at once, while the session is in use, after
    // the challenge lifetime
    let replay_accepted = (0u8..n, 0u8..n, any::<bool>(), prop_oneof![3 => Just(AddrSel::Original), 1 => addr_sel()], prop_oneof![2 => Just(None), 1 => Just(Some(Dt::TimeoutFrac40)), 1 => Just(Some(Dt::TimeoutPlus))], any::<bool>())
        .prop_map(|(from, to, with_record, addr, wait, use_session)| {
            let mut v = vec![Op::DeliverAll, Op::Submit { from, to, body: Body::Ping, with_record }, Op::Deliver(0), Op::AnswerWru { node: to, sel: 0, know: Know::Current }, Op::DeliverAll];
            if use_session {
                v.push(Op::Submit { from, to, body: Body::Ping, with_record });
                v.push(Op::DeliverAll);
            }
            if let Some(dt) = wait {
                v.push(Op::Advance(dt));
            }
            v.push(Op::ReplayHandshake { nth: 0, from: addr });
            v.push(Op::DeliverAll);
            v
        })
        .boxed();
    // many requests to one peer that never answers: they all end in one go (more outcomes at once than
    // the handler's channel to the application holds)
    let burst_fail = (0u8..n, 0u8..n, 52u8..100, any::<bool>())
        .prop_map(|(from, to, k, with_record)| {
            let mut v = vec![Op::DeliverAll];
            for j in 0..k {
                v.push(Op::Submit { from, to, body: if j % 3 == 0 { Body::Talk(j) } else { Body::Ping }, with_record });
            }
            // whatever was emitted is lost, then the time-outs run out
            for _ in 0..6 {
                v.push(Op::Drop(0));
            }
            for _ in 0..5 {
                v.push(Op::Advance(Dt::TimeoutPlus));
                v.push(Op::Drop(0));
            }
            v
        })
        .boxed();
    // a node re-keys its session with a peer that restarted; afterwards a datagram the peer had sent
    // under the PREVIOUS keys arrives (the receiver falls back to the old keys and rotates them back),
    // then somebody presents a message under a guessable key from the peer's address
    let old_key_fallback = (0u8..n_peers.max(1), 0u8..3, any::<bool>()).prop_map(|(p, key, with_record)| {
        let peer = 1 + p;
        vec![
            Op::DeliverAll,
            Op::Submit { from: 0, to: peer, body: Body::Ping, with_record: true },
            Op::DeliverAll,
            // stays in the pool for now (the oldest datagram there)
            Op::Submit { from: peer, to: 0, body: Body::Ping, with_record },
            Op::Restart(p),
            Op::Submit { from: 0, to: peer, body: Body::Ping, with_record: true },
            Op::Deliver(65535),
            Op::Deliver(65535),
            Op::Deliver(65535),
            Op::Deliver(65535),
            Op::Deliver(0),
            Op::GuessedKeyMessage { peer: p, to: 0, key, body: ForgedBody::Ping },
            Op::DeliverAll,
        ]
    })
    .boxed();
    // the peer is slow to answer with its WHOAREYOU and slow again to answer the handshake: each delay is
    // shorter than the request time-out, together they are longer
    let slow_challenge = (0u8..n, 0u8..n, any::<bool>(), prop_oneof![Just(Dt::TimeoutFrac40), Just(Dt::Ms1)]).prop_map(|(from, to, with_record, extra)| {
        vec![
            Op::DeliverAll,
            Op::Advance(Dt::TimeoutPlus),
            Op::Advance(Dt::TimeoutPlus),
            Op::DeliverAll,
            Op::Submit { from, to, body: Body::Ping, with_record },
            Op::Advance(Dt::TimeoutFrac40),
            Op::Advance(Dt::TimeoutFrac40),
            Op::Deliver(0),
            Op::AnswerWru { node: to, sel: 0, know: Know::Current },
            Op::Deliver(0),
            Op::Advance(Dt::TimeoutFrac40),
            Op::Advance(extra),
            Op::DeliverAll,
        ]
    })
    .boxed();
    // V (session cache of ONE in the cases that carry this fragment's config) has sent its handshake to
    // p1 - the packet is still on its way - when p2 connects and takes the only cache slot; then a
    // second WHOAREYOU for V's request to p1 arrives
    let second_wru_after_eviction = (any::<bool>(), any::<bool>()).prop_map(move |(with_record, swap)| {
        let (p1, p2) = if swap && n_peers >= 2 { (2u8, 1u8) } else { (1u8, 2u8.min(n_peers.max(1))) };
        vec![
            Op::DeliverAll,
            Op::Submit { from: 0, to: p1, body: Body::Ping, with_record },
            Op::Deliver(0),
            Op::AnswerWru { node: p1, sel: 0, know: Know::Current },
            Op::Deliver(0),
            Op::Submit { from: p2, to: 0, body: Body::Ping, with_record: true },
            Op::Deliver(65535),
            Op::AnswerWru { node: 0, sel: 0, know: Know::Current },
            Op::Deliver(65535),
            Op::Deliver(65535),
            Op::WhoAreYouForInflight { node: 0, sel: 0, handshaken_only: true },
            Op::DeliverAll,
        ]
    })
    .boxed();
    // somebody on the path copies an honest peer's first (undecryptable) packet and then its handshake
    // packet and presents both from his own address - the copy of the first packet even before the
    // original arrives
    let copied_knock = (0u8..n_peers.max(1), 0u8..3, any::<bool>(), any::<bool>()).prop_map(|(p, z, with_record, copy_first)| {
        let peer = 1 + p;
        let mut v = vec![Op::DeliverAll, Op::Submit { from: peer, to: 0, body: Body::Ping, with_record }];
        // (the peer's packet is the newest logged datagram: the copy reaches V before the original)
        v.push(Op::Replay { d: 65535, from: AddrSel::Attacker(z) });
        if copy_first {
            v.push(Op::AnswerWru { node: 0, sel: 0, know: Know::Current });
        }
        v.push(Op::Deliver(0));
        v.push(Op::AnswerWru { node: 0, sel: 0, know: Know::Current });
        v.push(Op::AnswerWru { node: 0, sel: 0, know: Know::Current });
        // the WHOAREYOU for the peer is the oldest datagram in the pool; the peer answers with its handshake
        v.push(Op::Deliver(0));
        v.push(Op::ReplayHandshake { nth: 0, from: AddrSel::Attacker(z) });
        v.push(Op::DeliverAll);
        v
    })
    .boxed();
    // requests to more addresses at once than any table of awaited addresses could be expected to hold
    let crowd = (1030u16..1300, prop_oneof![Just(Dt::Ms1), Just(Dt::TimeoutFrac40)]).prop_map(|(n, dt)| vec![Op::DeliverAll, Op::SubmitToMany { n }, Op::Advance(dt)]).boxed();
    let frag = match mix {
        Mix::Identity => prop_oneof![18 => single, 12 => attack, 2 => spoof_race, 1 => early_replay, 2 => replay_accepted, 1 => copied_knock.clone()].boxed(),
        Mix::Exemptions => prop_oneof![2400 => single, 400 => attack, 1 => crowd].boxed(),
        Mix::Tamper => prop_oneof![30 => single, 6 => exchange, 1 => spoof_race, 1 => old_key_fallback, 1 => early_replay.clone(), 1 => copied_knock.clone()].boxed(),
        Mix::Replay => prop_oneof![30 => single, 6 => exchange, 1 => late_handshake, 1 => early_replay, 2 => replay_accepted, 1 => second_wru_after_eviction, 1 => copied_knock].boxed(),
        _ => prop_oneof![60 => single, 1 => burst_fail, 2 => slow_challenge].boxed(),
    };
    proptest::collection::vec(frag, 1..max_fragments)
        .prop_map(|v| v.into_iter().flatten().collect())
        .boxed()
}
