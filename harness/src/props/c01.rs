//! C01 - Handshake proves node identity (attack scripts against V on the virtual wire).

use crate::{
    engines::{wire::*, wire_interp::*},
    ids, keys,
    props::wire_gen,
    runner::{CaseReport, Property, Tier},
};
use discv5::{
    packet::PacketKind,
    verif::{self as hv, HandlerOut},
    RequestError,
};
use proptest::prelude::*;
use serde::{Deserialize, Serialize};

#[derive(Clone, Debug, PartialEq, Eq, Hash, Serialize, Deserialize)]
pub struct Case {
    pub cfg: WireConfig,
    pub ops: Vec<Op>,
    /// service-engine companion; when present the wire schedule is not run
    #[serde(default)]
    pub svc: Option<SvcIdentity>,
}

pub struct C01;

/// Companion on the service engine: what the SERVICE does with the handler's who-are-you query, the
/// one handler event that is triggered by a datagram nobody has authenticated.
#[derive(Clone, Debug, PartialEq, Eq, Hash, Serialize, Deserialize)]
pub struct SvcIdentity {
    /// table members: (pool key, connected through an incoming session)
    pub peers: Vec<(u8, bool)>,
    /// unauthenticated packets: (claimed peer index, source address kind 0 the record's socket /
    /// 1 other port / 2 other ip / 3 IPv6, claimed id unknown to the service instead)
    pub probes: Vec<(u8, u8, bool)>,
    /// reports of the handler that a peer A presented a record it could not vouch for: (A = member
    /// index, the record is that of another member Y = index) - only A proved anything, and only about A
    #[serde(default)]
    pub foreign_reports: Vec<(u8, u8)>,
    /// sessions of OTHER identities seen at a member's socket: (member X = index, incoming). A party
    /// at X's socket completed a valid handshake under its own key (record advertising that socket
    /// too): it proved to be that identity, nothing about X
    #[serde(default)]
    pub same_socket_sessions: Vec<(u8, bool)>,
    /// members that complete another (valid) handshake while already connected: (member index, incoming)
    #[serde(default)]
    pub again: Vec<(u8, bool)>,
}

async fn run_svc_identity(c: &SvcIdentity, rep: &mut CaseReport) -> Option<(String, String)> {
    use crate::engines::svc::{reset_globals, shaped_record, svc_addr4, Shape, Svc, SvcConfig};
    use discv5::{verif::ConnectionDirection as Dir, NodeAddress};
    reset_globals();
    let mut s = Svc::new(SvcConfig { key_idx: 0, ..Default::default() }).await;
    let mut members: Vec<u32> = Vec::new();
    for (k, incoming) in c.peers.iter().take(8) {
        let key = 1200 + (*k as u32 % 40);
        if members.contains(&key) {
            continue;
        }
        members.push(key);
        s.inject(HandlerOut::Established(shaped_record(key, 1, Shape::V4), svc_addr4(key), if *incoming { Dir::Incoming } else { Dir::Outgoing })).await;
    }
    if members.is_empty() {
        return None;
    }
    s.take_outbox();
    s.take_events();
    let snapshot = |s: &Svc| -> Vec<(ids::Id, u64, String)> {
        // (the status string carries the id the stored RECORD belongs to: it must be the entry's own)
        let mut v: Vec<(ids::Id, u64, String)> = s.d.table_entries().into_iter().map(|(id, enr, st)| (id.raw(), enr.seq(), format!("{st:?} record-of-{}", ids::hex_id(&enr.node_id().raw())))).collect();
        v.sort();
        v
    };
    rep.class("service-companion");
    for (j, (pi, kind, unknown)) in c.probes.iter().enumerate() {
        let key = members[*pi as usize % members.len()];
        let claimed = if *unknown { keys::id_of(1300 + j as u32) } else { keys::id_of(key) };
        let rec_addr = svc_addr4(key);
        let src = match kind % 4 {
            0 => rec_addr,
            1 => std::net::SocketAddr::new(rec_addr.ip(), rec_addr.port() + 1),
            2 => std::net::SocketAddr::new(std::net::IpAddr::V4(std::net::Ipv4Addr::new(10, 66, 1, 1 + j as u8)), rec_addr.port()),
            _ => std::net::SocketAddr::new(std::net::IpAddr::V6(std::net::Ipv6Addr::new(0x2001, 0xdb8, 0, 0x66, 0, 0, 0, 1 + j as u16)), 7000),
        };
        let before = snapshot(&s);
        let mut nonce = [0u8; 12];
        nonce[0] = j as u8;
        s.inject(HandlerOut::WhoAreYou(hv::whoareyou_ref(NodeAddress::new(src, ids::node_id(&claimed)), nonce))).await;
        let after = snapshot(&s);
        let events = s.take_events();
        s.take_outbox();
        if before != after {
            let what = before.iter().find(|b| !after.contains(b)).map(|b| format!("{} seq {} {}", ids::hex_id(&b.0), b.1, b.2)).unwrap_or_default();
            return Some((
                "identity/table-entry-changed-by-unauthenticated-packet".into(),
                format!(
                    "a packet that nobody authenticated, claiming {} from {src}, made the handler ask the service for that node's record - and the routing table changed: entry {what} is now {:?}",
                    if *unknown { "an unknown id" } else { "a table member's id" },
                    after.iter().find(|a| before.iter().any(|b| b.0 == a.0 && b != *a)).map(|a| a.2.clone())
                ),
            ));
        }
        if let Some(e) = events.iter().find(|e| !matches!(e, discv5::Event::Discovered(_))) {
            return Some(("identity/event-after-unauthenticated-packet".into(), format!("the service emitted {e:?} because of a packet nobody authenticated")));
        }
        if !*unknown && kind % 4 != 0 {
            rep.nontrivial = true;
            rep.class("service-companion/table-member-claimed-from-another-socket");
        }
    }
    for (ai, yi) in c.foreign_reports.iter().take(4) {
        if members.len() < 2 {
            break;
        }
        let a = members[*ai as usize % members.len()];
        let mut y = members[*yi as usize % members.len()];
        if y == a {
            y = members[(*yi as usize + 1) % members.len()];
        }
        let before = snapshot(&s);
        // A (session established, proved to be A) answered the record request with Y's genuine record
        s.inject(HandlerOut::UnverifiableEnr { enr: shaped_record(y, 1, Shape::V4), socket: svc_addr4(a), node_id: ids::node_id(&keys::id_of(a)) }).await;
        let after = snapshot(&s);
        s.take_events();
        s.take_outbox();
        let yid = keys::id_of(y);
        let yb = before.iter().find(|e| e.0 == yid);
        let ya = after.iter().find(|e| e.0 == yid);
        if yb.is_some() && yb != ya {
            return Some((
                "identity/table-entry-of-a-third-node-changed".into(),
                format!("peer {} presented the record of node {} which it could not vouch for; the routing-table entry of THAT node changed from {:?} to {:?} although it took part in nothing", ids::hex_id(&keys::id_of(a)), ids::hex_id(&yid), yb.map(|e| &e.2), ya.map(|e| &e.2)),
            ));
        }
        rep.class("service-companion/unverifiable-report-with-a-third-node's-record");
        rep.nontrivial = true;
    }
    for (ai, incoming) in c.again.iter().take(6) {
        let a = members[*ai as usize % members.len()];
        let aid = keys::id_of(a);
        let before = snapshot(&s);
        s.inject(HandlerOut::Established(shaped_record(a, 1, Shape::V4), svc_addr4(a), if *incoming { Dir::Incoming } else { Dir::Outgoing })).await;
        let after = snapshot(&s);
        s.take_events();
        s.take_outbox();
        for b in &before {
            if b.0 == aid {
                continue;
            }
            if after.iter().find(|x| x.0 == b.0) != Some(b) {
                return Some((
                    "identity/table-entry-of-a-third-node-changed".into(),
                    format!("node {} (already connected) completed another handshake; the routing-table entry of node {} changed from ({}, {}) to {:?}", ids::hex_id(&aid), ids::hex_id(&b.0), b.1, b.2, after.iter().find(|x| x.0 == b.0).map(|x| (x.1, x.2.clone()))),
                ));
            }
        }
        rep.class("service-companion/connected-member-handshakes-again");
        rep.nontrivial = true;
    }
    for (j, (xi, incoming)) in c.same_socket_sessions.iter().take(4).enumerate() {
        let x = members[*xi as usize % members.len()];
        let xid = keys::id_of(x);
        let sock = svc_addr4(x);
        let a_key = 1360 + j as u32;
        let a_rec = crate::engines::wire::node_record(&keys::key(a_key), Some(sock), None, 1);
        let before = snapshot(&s);
        s.inject(HandlerOut::Established(a_rec, sock, if *incoming { Dir::Incoming } else { Dir::Outgoing })).await;
        let after = snapshot(&s);
        s.take_events();
        s.take_outbox();
        let xb = before.iter().find(|e| e.0 == xid);
        let xa = after.iter().find(|e| e.0 == xid);
        if xb.is_some() && xb != xa {
            return Some((
                "identity/table-entry-of-a-third-node-changed".into(),
                format!("a party at {sock} completed a handshake as node {} (its own key; its record advertises that socket); the routing-table entry of node {}, whose record advertises the same socket and which took part in nothing, changed from {:?} to {:?}", ids::hex_id(&keys::id_of(a_key)), ids::hex_id(&xid), xb.map(|e| &e.2), xa.map(|e| &e.2)),
            ));
        }
        rep.class("service-companion/session-of-another-identity-at-a-member's-socket");
        rep.nontrivial = true;
    }
    s.d.shutdown();
    None
}

#[derive(Default)]
pub struct Identity {
    seen_events: usize,
    seen_log: usize,
    nontrivial: bool,
    classes: Vec<String>,
    /// "fresh WHOAREYOU": the acceptance clause of C03's ledger, evaluated on these schedules too
    fresh: crate::props::c03::Freshness,
}

impl Identity {
    fn class(&mut self, s: String) {
        if !self.classes.contains(&s) {
            self.classes.push(s);
        }
    }
}

/// An address no honest node owns: the adversary's own addresses, but also e.g. another port on an
/// honest peer's IP from which it replays that peer's datagrams.
fn adv_addr(w: &World, a: &std::net::SocketAddr) -> bool {
    w.node_by_addr(a).is_none()
}

fn is_foreign(w: &World, id: &ids::Id) -> bool {
    !w.attacker.own_ids.contains(id)
}

impl Oracle for Identity {
    fn after_step(&mut self, w: &World, op: &Op) -> Option<(String, String)> {
        self.fresh.acceptance_only = true;
        // (the ledger of challenges must see every step; its verdict is reported after the identity clauses)
        let not_fresh = self.fresh.after_step(w, op);
        if matches!(op, Op::ReplayHandshake { .. }) {
            self.class("handshake-packet-presented-again".into());
        }
        if let Some(r) = self.identity_clauses(w, op) {
            return Some(r);
        }
        not_fresh.map(|(sig, d)| (format!("identity/not-a-fresh-challenge/{}", sig.rsplit('/').next().unwrap_or("")), d))
    }

    fn report(&self, w: &World, rep: &mut CaseReport) {
        rep.nontrivial = self.nontrivial;
        for c in &self.classes {
            rep.class(c.clone());
        }
        rep.count("forged-handshakes-with-verifying-signature", w.attacker.forged_with_verifying_sig as u64);
    }
}

impl Identity {
    fn identity_clauses(&mut self, w: &World, op: &Op) -> Option<(String, String)> {
        // what was injected into V in this step?
        let inj: Vec<&Injection> = w.step_injections().filter(|j| j.to_node == 0).collect();
        let from_attacker_only = !inj.is_empty() && inj.iter().all(|j| adv_addr(w, &j.from_addr));
        // steps in which V only processed a forged handshake presented from an honest peer's address
        let spoofed_only = !inj.is_empty() && inj.iter().all(|j| j.manipulation.as_deref() == Some("forged-handshake-spoofed"));
        if spoofed_only {
            self.class("forged-handshake-from-the-honest-peer's-own-address".into());
            let from = inj[0].from_addr;
            if w.prev_snaps[0].challenges.iter().any(|(a, _)| a.socket_addr == from) {
                self.nontrivial = true;
                self.class("forged-handshake-from-the-honest-peer's-own-address/challenge-outstanding".into());
                if w.prev_snaps[0].sessions.iter().any(|s| s.addr.socket_addr == from) {
                    self.class("forged-handshake-from-the-honest-peer's-own-address/challenge-outstanding-and-session-live".into());
                }
            }
            for s in &w.snaps[0].sessions {
                if s.addr.socket_addr != from {
                    continue;
                }
                let before = w.prev_snaps[0].sessions.iter().find(|p| p.addr == s.addr);
                if before.map(|b| b.keys != s.keys).unwrap_or(true) {
                    return Some((
                        "identity/session-keyed-by-forged-handshake-from-spoofed-source".into(),
                        format!("V holds a new/re-keyed session for honest node {} at {} after a handshake that an adversary without that node's key presented from its address (op {op:?})", s.addr.node_id, s.addr.socket_addr),
                    ));
                }
            }
            for e in w.events[self.seen_events..].iter().filter(|e| e.node == 0) {
                let hit = match &e.out {
                    HandlerOut::Request(a, _) | HandlerOut::Response(a, _) => a.socket_addr == from,
                    HandlerOut::Established(_, s, _) => *s == from,
                    HandlerOut::UnverifiableEnr { socket, .. } => *socket == from,
                    _ => false,
                };
                if hit {
                    return Some((
                        "identity/effect-attributed-after-forged-handshake-from-spoofed-source".into(),
                        format!("V reported {:?} for the honest node at {from} in a step that only processed a handshake forged by an adversary without that node's key (op {op:?})", std::mem::discriminant(&e.out)),
                    ));
                }
            }
        }
        let inj_kind = inj.first().and_then(|j| {
            hv::packet_decode(&ids::node_id(&w.nodes[0].id), Default::default(), &j.bytes).ok().map(|(p, _)| match p.kind {
                PacketKind::Message { .. } => 0u8,
                PacketKind::WhoAreYou { .. } => 1,
                PacketKind::Handshake { .. } => 2,
            })
        });
        // statistics / non-triviality
        if let Op::ForgedHandshake { x, z, signer, eph, rec, spoof, .. } = op {
            let xid = w.xid(x);
            let za = if *spoof { w.xnode(x).map(|j| w.nodes[j].addr).unwrap_or(attacker_addr(*z)) } else { attacker_addr(*z) };
            let outstanding = w.prev_snaps[0].challenges.iter().any(|(a, _)| a.node_id.raw() == xid && a.socket_addr == za);
            let verifying = matches!((signer, rec), (Signer::Adv(j), AttachedRecord::Own { key, .. }) if j % 3 == key % 3) && *eph == EphKey::Valid;
            if outstanding && verifying {
                self.nontrivial = true;
            }
            let know = match (w.xnode(x), w.cfg.wru_know.first()) {
                (None, _) if matches!(x, XSel::Ed(_)) => "ed25519-id",
                (None, _) => "random-id",
                (Some(_), Some(Know::Nothing)) => "peer-unknown-to-V",
                (Some(_), Some(Know::Older)) => "peer-known-older-seq",
                _ => "peer-known",
            };
            let r = match rec {
                AttachedRecord::Own { seq, .. } => format!("own-{seq:?}"),
                AttachedRecord::Genuine => "genuine".into(),
                AttachedRecord::ThirdParty(_) => "third-party".into(),
                AttachedRecord::None => "none".into(),
            };
            let sg = match signer {
                Signer::Adv(_) => "adv-key",
                Signer::Garbage => "garbage",
                Signer::Empty => "empty",
                Signer::Truncated => "truncated",
                Signer::Genuine => "the-node's-own-key",
                Signer::Observed => "signature-lifted-from-a-genuine-handshake",
                Signer::AdvExtended(..) => "adv-key-with-appended-bytes",
            };
            self.class(format!("forged/{know}/{r}/{sg}{}", if outstanding { "" } else { "/no-challenge-outstanding" }));
        }

        // 1 + 2: events at V
        let evs: Vec<EvRec> = w.events[self.seen_events..].to_vec();
        self.seen_events = w.events.len();
        for e in evs.iter().filter(|e| e.node == 0) {
            match &e.out {
                HandlerOut::Request(a, r) if adv_addr(w, &a.socket_addr) && is_foreign(w, &a.node_id.raw()) => {
                    return Some((
                        "identity/request-attributed-to-impersonated-id".into(),
                        format!("V delivered request {r} as coming from node {} at attacker address {} (op {op:?})", a.node_id, a.socket_addr),
                    ));
                }
                HandlerOut::Response(a, r) if adv_addr(w, &a.socket_addr) && is_foreign(w, &a.node_id.raw()) => {
                    return Some((
                        "identity/response-attributed-to-impersonated-id".into(),
                        format!("V delivered response {r} as coming from node {} at attacker address {} (op {op:?})", a.node_id, a.socket_addr),
                    ));
                }
                HandlerOut::Established(enr, sock, dir) if adv_addr(w, sock) && is_foreign(w, &enr.node_id().raw()) => {
                    // outbound: V reports Established(Outgoing) when it sends its own handshake to a
                    // contact with a known record (protocol design, see DESIGN.md scope note)
                    let outbound_by_design = inj_kind == Some(1);
                    if !outbound_by_design {
                        return Some((
                            "identity/established-as-impersonated-id".into(),
                            format!("V reported node {} established at attacker address {sock} ({dir:?}) (op {op:?})", enr.node_id()),
                        ));
                    }
                }
                HandlerOut::Established(enr, sock, dir) if w.node_by_addr(sock).map(|j| w.nodes[j].id != enr.node_id().raw()).unwrap_or(false) => {
                    // the party at `sock` proved to be node j; a record of ANOTHER identity must not be
                    // reported as established there (e.g. through the answer to the record request)
                    let j = w.node_by_addr(sock).unwrap();
                    return Some((
                        "identity/established-with-record-of-another-node".into(),
                        format!("V reported node {} established at {sock} ({dir:?}), but the party there handshook as node {} (op {op:?})", enr.node_id(), ids::node_id(&w.nodes[j].id)),
                    ));
                }
                HandlerOut::UnverifiableEnr { node_id, socket, .. } if adv_addr(w, socket) && is_foreign(w, &node_id.raw()) => {
                    return Some((
                        "identity/unverifiable-enr-reported-for-impersonated-id".into(),
                        format!("V reported UnverifiableEnr for node {node_id} because of traffic from attacker address {socket} (op {op:?}); the service removes that node from its table"),
                    ));
                }
                HandlerOut::RequestFailed(id, err) if from_attacker_only && !matches!(err, RequestError::Timeout) => {
                    // a request towards an honest peer failed because of attacker traffic?
                    if let Some(s) = w.submitted.iter().find(|s| s.from == 0 && &s.id == id) {
                        if !adv_addr(w, &s.to_addr) {
                            return Some((
                                "identity/honest-request-failed-by-attacker-traffic".into(),
                                format!("V's request {id} to honest peer {} failed with {err:?} in a step that only processed attacker traffic (op {op:?})", s.to_addr),
                            ));
                        }
                    }
                }
                _ => {}
            }
        }

        // 3: inbound acceptance creates / re-keys a session keyed to a foreign id at an attacker address
        if inj_kind == Some(2) && from_attacker_only {
            for s in &w.snaps[0].sessions {
                if adv_addr(w, &s.addr.socket_addr) && is_foreign(w, &s.addr.node_id.raw()) {
                    let before = w.prev_snaps[0].sessions.iter().find(|p| p.addr == s.addr);
                    if before.map(|b| b.keys != s.keys).unwrap_or(true) {
                        return Some((
                            "identity/session-keyed-to-impersonated-id".into(),
                            format!("V holds a new/re-keyed session for node {} at attacker address {} after a handshake from there (op {op:?})", s.addr.node_id, s.addr.socket_addr),
                        ));
                    }
                }
            }
        }
        // V encrypts towards an attacker address under a key the attacker can derive
        for d in &w.log[self.seen_log..] {
            if d.from_node == Some(0) && is_foreign(w, &d.to_id.raw()) && (adv_addr(w, &d.to_addr) || w.attacker.derived.iter().any(|(xid, z, _, _)| *z == 255 && *xid == d.to_id.raw())) {
                if let Some((p, aad)) = &d.decoded {
                    if !matches!(p.kind, PacketKind::WhoAreYou { .. }) {
                        for (xid, _, ik, rk) in &w.attacker.derived {
                            if !adv_addr(w, &d.to_addr) && *xid != d.to_id.raw() {
                                continue;
                            }
                            for k in [ik, rk] {
                                if hv::decrypt_message(k, p.message_nonce, &p.message, aad).is_ok() {
                                    return Some((
                                        "identity/v-encrypts-under-attacker-derivable-key".into(),
                                        format!("V sent a datagram to node {} at {} that decrypts under a key the attacker derived without X's secret", d.to_id, d.to_addr),
                                    ));
                                }
                            }
                        }
                    }
                }
            }
        }
        self.seen_log = w.log.len();

        // 4: honest sessions untouched by attacker traffic
        if from_attacker_only {
            for before in &w.prev_snaps[0].sessions {
                if adv_addr(w, &before.addr.socket_addr) {
                    continue;
                }
                match w.snaps[0].sessions.iter().find(|s| s.addr == before.addr) {
                    None => {
                        return Some((
                            "identity/honest-session-dropped-by-attacker-traffic".into(),
                            format!("V's session with {} disappeared in a step that only processed traffic from attacker addresses (op {op:?})", before.addr.socket_addr),
                        ));
                    }
                    Some(now) if now.keys != before.keys || now.old_keys != before.old_keys => {
                        return Some((
                            "identity/honest-session-rekeyed-by-attacker-traffic".into(),
                            format!("V's session keys with {} changed in a step that only processed traffic from attacker addresses (op {op:?})", before.addr.socket_addr),
                        ));
                    }
                    _ => {}
                }
            }
        }
        None
    }

}

impl Property for C01 {
    type Case = Case;
    const ID: &'static str = "C01";
    fn cases(tier: Tier) -> u64 {
        tier.pick(24_000, 400_000)
    }
    fn strategy(tier: Tier) -> BoxedStrategy<Case> {
        let n = tier.pick(25usize, 60usize);
        let wire_cases = wire_gen::config_strategy(true)
            .prop_flat_map(move |cfg| {
                let np = cfg.n_peers;
                (Just(cfg), wire_gen::ops_strategy(np, wire_gen::Mix::Identity, n))
            })
            .prop_map(|(mut cfg, ops)| {
                // V answers who-are-you queries immediately in most cases (the attacker needs the
                // challenge); in a quarter of them its application answers late (op AnswerWru), which is
                // the only way a challenge can be outstanding while a session with that peer is live
                cfg.wru_mode[0] = if cfg.retries == 3 { AppMode::Manual } else { AppMode::Immediate };
                // in a third of the cases peer 1's application answers record requests with a foreign record
                if cfg.seqs.first().map(|s| s % 3 == 0).unwrap_or(false) {
                    cfg.foreign_enr_answer = vec![1];
                }
                // in a quarter of the cases peer 1 is behind NAT (its record advertises another socket than it sends from)
                if cfg.seqs.get(2).map(|s| *s == 3).unwrap_or(false) && cfg.seqs.get(3).map(|s| *s != 1).unwrap_or(false) {
                    cfg.nat_peers = vec![1];
                }
                Case { cfg, ops, svc: None }
            });
        let wire = wire_cases;
        let companion = (
            wire_gen::config_strategy(false),
            proptest::collection::vec((any::<u8>(), any::<bool>()), 1..8),
            proptest::collection::vec((any::<u8>(), 0u8..4, prop_oneof![4 => Just(false), 1 => Just(true)]), 1..8),
            proptest::collection::vec((any::<u8>(), any::<u8>()), 0..3),
            proptest::collection::vec((any::<u8>(), any::<bool>()), 0..3),
            proptest::collection::vec((any::<u8>(), any::<bool>()), 0..6),
        )
            .prop_map(|(cfg, peers, probes, foreign_reports, same_socket_sessions, again)| Case { cfg, ops: vec![], svc: Some(SvcIdentity { peers, probes, foreign_reports, same_socket_sessions, again }) });
        prop_oneof![60 => wire, 1 => companion].boxed()
    }
    fn run(case: &Case) -> CaseReport {
        let mut rep = CaseReport::default();
        if let Some(sv) = &case.svc {
            if let Some((s, d)) = crate::engines::svc::run_blocking(run_svc_identity(sv, &mut rep)) {
                rep.fail(s, d);
            }
            return rep;
        }
        let mut o = Identity::default();
        run_case_blocking(case.cfg.clone(), &case.ops, Drain::None, &mut o, &mut rep);
        rep
    }
    fn rule() -> String {
        "attack scripts (<=25 quick / <=60 thorough ops) against V with 1..3 honest peers exchanging genuine traffic: for a claimed id X in {an honest peer known to V with its current record, with an older record, unknown to V, a random id} the attacker (own keys, 3 source addresses, never a peer's secret key) sends undecryptable probes to provoke V's WHOAREYOU, then handshakes built with the real primitives: signed by an attacker key / garbage / empty / truncated, ephemeral key valid / invalid point / wrong length, attached record = the attacker's own record (seq 0, below, equal, above the known one, 2^64-1; address matching / other / absent), the peer's genuine record, a third party's record, none; bodies PING / FINDNODE / TALK encrypted under the keys the attacker can derive, follow-up messages under those keys, replays (also of handshake packets V accepted: at once, while the session is used, after the challenge lifetime; the peer's record matching its address or - a quarter of the cases - not), forged WHOAREYOUs, and requests V sends to the peer's key at an attacker address. Invariant after every step: no request/response/Established/UnverifiableEnr attributed to a foreign id at an attacker address, no session keyed to it created by an inbound handshake, nothing V emits to it decrypts under an attacker-derivable key, and honest sessions/requests are untouched by steps that only process attacker traffic; and (the 'fresh WHOAREYOU' clause, C03's ledger of emitted challenges) a session appears / is re-keyed or Established is reported on a handshake packet only while an unconsumed, unexpired WHOAREYOU of that node to exactly (id, source address) exists. One case in 61 is a companion on the service engine: a real service with 1..8 table members (incoming and outgoing) receives the handler's who-are-you query - the one handler event triggered by a datagram nobody authenticated - for a member's id or an unknown id from the record's socket, another port, another IP or an IPv6 address; the routing table (ids, record versions, connection status) must be unchanged afterwards and no event may be emitted; and reports that a member A presented the record of another member Y which it could not vouch for must leave Y's entry untouched; so must a session of ANOTHER identity (own key, record advertising the same socket) established at a member's socket. Non-trivial = a forged handshake whose id-signature verifies under the attached record's key arrives while V's WHOAREYOU to (X, attacker address) is outstanding.".into()
    }
    fn assumptions() -> Vec<String> {
        vec![
            "cryptographic primitives (ECDSA, ECDH, HKDF, AES-GCM) are trusted; what is tested is which key a signature is verified under and what is bound into it".into(),
            "outbound direction: V reporting Established(Outgoing) when it sends its own handshake to a contact with a known record is the protocol's design and is not asserted (DESIGN.md, C01 scope note)".into(),
            "dropping the session keyed to a peer's own address after a spoofed packet from that same address is the documented re-handshake trigger and is not asserted".into(),
        ]
    }
}
