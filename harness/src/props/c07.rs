//! C07 - Routing-table structural invariants (history invariant over generated op sequences).

use crate::{
    engines::table::*,
    ids::{self, Id},
    runner::{CaseReport, Property, Tier},
};
use proptest::prelude::*;
use serde::{Deserialize, Serialize};
use std::collections::{HashMap, HashSet};

#[derive(Clone, Debug, PartialEq, Eq, Hash, Serialize, Deserialize)]
pub struct Case {
    pub cfg: TableConfig,
    pub ops: Vec<TOp>,
    /// companion: the table a `Discv5` node builds from its configuration; the table history is not run
    #[serde(default)]
    pub svc: Option<SvcLimit>,
}

/// A real `Discv5` (service with scripted handler) configured with an incoming limit: peers report
/// sessions in both directions, some are disconnected again.
#[derive(Clone, Debug, PartialEq, Eq, Hash, Serialize, Deserialize)]
pub struct SvcLimit {
    pub limit: u8,
    /// (peer, 0 = incoming session / 1 = outgoing session / 2 = disconnect / 3 = explicit add_enr)
    pub steps: Vec<(u8, u8)>,
}

async fn run_svc_limit(c: &SvcLimit, rep: &mut CaseReport) -> Option<(String, String)> {
    use crate::engines::svc::{reset_globals, shaped_record, svc_addr4, Shape, Svc, SvcConfig};
    use discv5::{
        verif::{ConnectionDirection as Dir, HandlerOut},
        ConnectionState,
    };
    reset_globals();
    let limit = c.limit.min(16) as usize;
    let mut s = Svc::new(SvcConfig { key_idx: 0, incoming_bucket_limit: Some(limit), ..Default::default() }).await;
    let local = s.d.local_enr().node_id().raw();
    rep.class("service-companion");
    rep.class(format!("service-companion/incoming-limit-{limit}"));
    let mut most_incoming = 0usize;
    let mut refused_incoming = false;
    for (p, what) in c.steps.iter().take(120) {
        let key = 1400 + (*p as u32 % 90);
        let id = ids::node_id(&crate::keys::id_of(key));
        match what % 4 {
            0 => s.inject(HandlerOut::Established(shaped_record(key, 1, Shape::V4), svc_addr4(key), Dir::Incoming)).await,
            1 => s.inject(HandlerOut::Established(shaped_record(key, 1, Shape::V4), svc_addr4(key), Dir::Outgoing)).await,
            2 => {
                s.d.disconnect_node(&id);
            }
            _ => {
                let _ = s.d.add_enr(shaped_record(key, 1, Shape::V4));
            }
        }
        s.take_outbox();
        s.take_events();
        if let Some(p) = crate::runner::take_panic() {
            return Some((format!("panic-in-task/{}", p.split(':').take(2).collect::<Vec<_>>().join(":")), p));
        }
        let mut per: HashMap<usize, (usize, usize)> = HashMap::new();
        for (nid, _, st) in s.d.table_entries() {
            let Some(b) = bucket_of(&local, &nid.raw()) else {
                return Some(("S2/local-id-stored".into(), "the node's own id is a routing-table entry".into()));
            };
            let e = per.entry(b).or_insert((0, 0));
            e.0 += 1;
            if st.state == ConnectionState::Connected && st.direction == Dir::Incoming {
                e.1 += 1;
            }
        }
        for (b, (n, inc)) in &per {
            if *n > K {
                return Some(("S1/bucket-overfull".into(), format!("bucket {b} of the node's table holds {n} nodes")));
            }
            most_incoming = most_incoming.max(*inc);
            if *inc > limit {
                return Some((
                    "S5/too-many-incoming".into(),
                    format!("a node configured with incoming_bucket_limit {limit} holds {inc} connected incoming nodes in bucket {b} (after step ({p}, {what}))"),
                ));
            }
        }
        if what % 4 == 0 && !s.d.table_entries().iter().any(|(n, _, st)| *n == id && st.direction == Dir::Incoming && st.state == ConnectionState::Connected) {
            refused_incoming = true;
        }
    }
    s.d.shutdown();
    rep.nontrivial = refused_incoming || most_incoming >= 1;
    if refused_incoming {
        rep.class("service-companion/an-incoming-session-was-not-stored-as-connected");
    }
    if most_incoming == limit && limit > 0 {
        rep.class("service-companion/limit-reached");
    }
    None
}

pub struct C07;

/// The per-history checker, reused by the fuzz target.
pub struct Checker {
    pub cfg: TableConfig,
    stamps: HashMap<Id, u64>,
    forced: HashMap<usize, bool>,
    step: u64,
    pub filled: HashSet<usize>,
    pub op_after_fill: bool,
    pub applied_pending: u64,
    pub dropped_pending_on_reconnect: u64,
    pub max_incoming_reached: bool,
    pub low_bucket_touched: bool,
}

fn bucket_of(local: &Id, id: &Id) -> Option<usize> {
    let l = ids::log2(local, id);
    if l == 0 { None } else { Some(l as usize - 1) }
}

impl Checker {
    pub fn new(cfg: TableConfig) -> Self {
        Checker {
            cfg,
            stamps: HashMap::new(),
            forced: HashMap::new(),
            step: 0,
            filled: HashSet::new(),
            op_after_fill: false,
            applied_pending: 0,
            dropped_pending_on_reconnect: 0,
            max_incoming_reached: false,
            low_bucket_touched: false,
        }
    }

    /// Note an ExpirePending op (before it is applied): the ledger marks the deadline as elapsed
    /// if that bucket currently has a pending node.
    fn note_expire(&mut self, pre: &Snapshot, bucket: usize) {
        if pre[bucket].pending.is_some() {
            self.forced.insert(bucket, true);
        }
    }

    fn elapsed(&self, bucket: usize) -> bool {
        self.cfg.pending_zero || self.forced.get(&bucket).copied().unwrap_or(false)
    }

    /// Evaluate all invariants for the transition pre --op--> post. Returns (signature, detail).
    pub fn check(
        &mut self,
        pre: &Snapshot,
        post: &Snapshot,
        op: &TOp,
        key: Option<Id>,
        ret: &Ret,
    ) -> Option<(String, String)> {
        self.step += 1;
        let s = self.step;
        let local = self.cfg.local;
        if let TOp::ExpirePending { bucket } = op {
            self.note_expire(pre, *bucket as usize);
        }
        let kb = key.as_ref().and_then(|k| bucket_of(&local, k));
        if let Some(b) = kb {
            if b <= 3 {
                self.low_bucket_touched = true;
            }
            if self.filled.contains(&b) {
                self.op_after_fill = true;
            }
        }

        // ---- static invariants S1..S5 on `post`
        let mut seen: HashSet<Id> = HashSet::new();
        for (i, b) in post.iter().enumerate() {
            if b.nodes.len() > K {
                return Some(("S1/bucket-overfull".into(), format!("bucket {i} holds {} nodes", b.nodes.len())));
            }
            if b.nodes.len() == K {
                self.filled.insert(i);
            }
            let mut seen_connected = false;
            let mut inc = 0usize;
            for n in b.nodes.iter() {
                if n.id == local {
                    return Some(("S2/local-id-stored".into(), format!("local id stored in bucket {i}")));
                }
                if bucket_of(&local, &n.id) != Some(i) {
                    return Some((
                        "S2/wrong-bucket".into(),
                        format!("node {} (log2 {}) sits in bucket {i}", ids::hex_id(&n.id), ids::log2(&local, &n.id)),
                    ));
                }
                if !seen.insert(n.id) {
                    return Some(("S3/duplicate-id".into(), format!("id {} occurs twice (bucket {i})", ids::hex_id(&n.id))));
                }
                if n.connected {
                    seen_connected = true;
                    if n.incoming {
                        inc += 1;
                    }
                } else if seen_connected {
                    return Some((
                        "S4/connected-before-disconnected".into(),
                        format!("bucket {i}: a connected node precedes disconnected node {}", ids::hex_id(&n.id)),
                    ));
                }
            }
            if inc > self.cfg.max_incoming as usize {
                return Some((
                    "S5/too-many-incoming".into(),
                    format!("bucket {i}: {inc} connected incoming nodes, limit {}", self.cfg.max_incoming),
                ));
            }
            if inc == self.cfg.max_incoming as usize && self.cfg.max_incoming < 16 && inc > 0 {
                self.max_incoming_reached = true;
            }
            if let Some(p) = &b.pending {
                if p.id == local {
                    return Some(("S2/local-id-pending".into(), format!("local id pending in bucket {i}")));
                }
                if bucket_of(&local, &p.id) != Some(i) {
                    return Some(("S2/wrong-bucket-pending".into(), format!("pending {} in bucket {i}", ids::hex_id(&p.id))));
                }
                if !seen.insert(p.id) {
                    return Some((
                        "S3/duplicate-id-pending".into(),
                        format!("id {} is stored and pending (bucket {i})", ids::hex_id(&p.id)),
                    ));
                }
            }
        }

        // ---- pending life cycle P1..P3 (transition checks)
        let reports_connected = match op {
            TOp::InsertOrUpdate { connected, .. } => *connected,
            TOp::UpdateStatus { connected, .. } => *connected,
            TOp::UpdateNode { state, .. } => *state == Some(true),
            TOp::EntryUpdate { connected, .. } => *connected && matches!(ret, Ret::Update(_)),
            _ => false,
        };
        for (i, (pb, qb)) in pre.iter().zip(post.iter()).enumerate() {
            let Some(p) = &pb.pending else { continue };
            let was_in = pb.nodes.iter().any(|n| n.id == p.id);
            let now_in = qb.nodes.iter().any(|n| n.id == p.id);
            let elapsed = self.elapsed(i);
            if now_in && !was_in && pb.nodes.len() == K {
                self.applied_pending += 1;
                if !elapsed {
                    return Some((
                        "P1/pending-applied-before-timeout".into(),
                        format!("bucket {i}: pending {} entered the full bucket although its timeout had not elapsed (op {op:?})", ids::hex_id(&p.id)),
                    ));
                }
                let front = &pb.nodes[0];
                if front.connected {
                    return Some((
                        "P3/pending-entered-bucket-with-connected-front".into(),
                        format!("bucket {i}: pending {} entered although the front node was connected", ids::hex_id(&p.id)),
                    ));
                }
                if qb.nodes.iter().any(|n| n.id == front.id) {
                    return Some((
                        "P1/evicted-wrong-node".into(),
                        format!("bucket {i}: pending applied but the least-recently-active disconnected node {} is still stored", ids::hex_id(&front.id)),
                    ));
                }
                for n in pb.nodes.iter().skip(1) {
                    if Some(n.id) == key {
                        continue;
                    }
                    if !qb.nodes.iter().any(|m| m.id == n.id) {
                        return Some((
                            "P1/extra-eviction".into(),
                            format!("bucket {i}: node {} disappeared while the pending node was applied (op {op:?})", ids::hex_id(&n.id)),
                        ));
                    }
                }
            }
            // P2: front node reconnects before the timeout -> pending discarded
            if !elapsed && reports_connected && kb == Some(i) && !pb.nodes.is_empty() && Some(pb.nodes[0].id) == key {
                let front_still = qb.nodes.iter().any(|n| Some(n.id) == key);
                let _ = front_still;
                if qb.pending.is_some() || now_in {
                    return Some((
                        "P2/pending-kept-after-front-reconnected".into(),
                        format!("bucket {i}: front node {} reported connected before the timeout but pending {} survived (op {op:?}, ret {ret:?})",
                            ids::hex_id(&pb.nodes[0].id), ids::hex_id(&p.id)),
                    ));
                }
                self.dropped_pending_on_reconnect += 1;
            }
        }
        // ledger: reset the forced flag when the pending slot of a bucket changed identity
        for (i, (pb, qb)) in pre.iter().zip(post.iter()).enumerate() {
            let same = match (&pb.pending, &qb.pending) {
                (Some(a), Some(b)) => a.id == b.id,
                (None, None) => true,
                _ => false,
            };
            if !same || qb.pending.is_none() {
                self.forced.remove(&i);
            }
        }

        // ---- S6 recency order (stamp ledger)
        for (pb, qb) in pre.iter().zip(post.iter()) {
            if let Some(p) = &pb.pending {
                if qb.nodes.iter().any(|n| n.id == p.id) && !pb.nodes.iter().any(|n| n.id == p.id) {
                    self.stamps.insert(p.id, 2 * s);
                }
            }
        }
        let status_report = match op {
            TOp::InsertOrUpdate { .. } | TOp::UpdateStatus { .. } => true,
            TOp::UpdateNode { state, .. } => state.is_some(),
            TOp::EntryInsert { .. } => matches!(ret, Ret::Insert(x) if x.starts_with("Inserted")),
            TOp::EntryUpdate { .. } => matches!(ret, Ret::Update(_)),
            _ => false,
        };
        if let (true, Some(k), Some(b)) = (status_report, key, kb) {
            if post[b].nodes.iter().any(|n| n.id == k) {
                self.stamps.insert(k, 2 * s + 1);
            }
        }
        // forget nodes that left
        let present: HashSet<Id> = post.iter().flat_map(|b| b.nodes.iter().map(|n| n.id)).collect();
        self.stamps.retain(|k, _| present.contains(k));
        for (i, b) in post.iter().enumerate() {
            for group in [false, true] {
                let mut last: Option<u64> = None;
                for n in b.nodes.iter().filter(|n| n.connected == group) {
                    let Some(st) = self.stamps.get(&n.id).copied() else {
                        return Some((
                            "HARNESS/unstamped-node".into(),
                            format!("bucket {i}: node {} has no stamp (op {op:?})", ids::hex_id(&n.id)),
                        ));
                    };
                    if let Some(l) = last {
                        if st <= l {
                            return Some((
                                format!("S6/recency-order/{}", if group { "connected" } else { "disconnected" }),
                                format!("bucket {i}: node {} (last status report at {st}) is placed after a node reported at {l} (op {op:?})", ids::hex_id(&n.id)),
                            ));
                        }
                    }
                    last = Some(st);
                }
            }
        }

        // ---- documented return values
        if let Some(k) = key {
            if k == local {
                match (op, ret) {
                    (TOp::InsertOrUpdate { .. }, Ret::Insert(x)) if x != "Failed(InvalidSelfUpdate)" => {
                        return Some(("R/self-insert-not-refused".into(), format!("insert_or_update(local) returned {x}")));
                    }
                    _ => {}
                }
            }
            if let (TOp::Remove { .. }, Ret::Removed(r), Some(b)) = (op, ret, kb) {
                let in_pre = pre[b].nodes.iter().any(|n| n.id == k) || pre[b].pending.as_ref().map(|p| p.id == k).unwrap_or(false);
                let in_post = post[b].nodes.iter().any(|n| n.id == k);
                if in_post {
                    return Some(("R/remove-left-node".into(), format!("remove({}) left the node in bucket {b}", ids::hex_id(&k))));
                }
                if *r && !in_pre {
                    return Some(("R/remove-true-for-absent".into(), format!("remove({}) returned true for an absent key", ids::hex_id(&k))));
                }
            }
        }
        None
    }
}

/// Runs a whole history; returns the report.
pub fn run_history(cfg: &TableConfig, ops: &[TOp]) -> CaseReport {
    let mut rep = CaseReport::default();
    let mut t = new_table(cfg);
    let mut chk = Checker::new(cfg.clone());
    let mut pre = observe(&t);
    'outer: for op in ops {
        for e in expand(op) {
            let t_before = std::time::Instant::now();
            let (key, ret) = apply(&mut t, &cfg.local, &e);
            let post = observe(&t);
            // P1 (deadline form): a node that became pending in this step waits for ITS OWN full
            // timeout, counted from this step; and the deadline of a waiting node is never brought
            // forward (except by the harness's explicit expiry op)
            let timeout = if cfg.pending_zero { std::time::Duration::ZERO } else { std::time::Duration::from_secs(3600) };
            for (i, (pb, qb)) in pre.iter().zip(post.iter()).enumerate() {
                let (Some(q), Some(dl)) = (&qb.pending, qb.pending_deadline) else { continue };
                let same = pb.pending.as_ref().map(|p| p.id == q.id).unwrap_or(false);
                if !same {
                    if dl < t_before + timeout {
                        rep.fail(
                            "P1/pending-deadline-earlier-than-its-own-timeout",
                            format!("bucket {i}: node {} became pending in this step (op {e:?}) but is due {:?} before a full pending timeout from now has passed", ids::hex_id(&q.id), (t_before + timeout) - dl),
                        );
                        break 'outer;
                    }
                } else if let Some(old) = pb.pending_deadline {
                    if dl < old && !matches!(e, TOp::ExpirePending { .. }) {
                        rep.fail("P1/pending-deadline-brought-forward", format!("bucket {i}: the deadline of waiting node {} moved {:?} earlier (op {e:?})", ids::hex_id(&q.id), old - dl));
                        break 'outer;
                    }
                }
            }
            if let Some((sig, detail)) = chk.check(&pre, &post, &e, key, &ret) {
                if sig.starts_with("HARNESS/") {
                    rep.fail(format!("HARNESS-PANIC/{sig}"), detail);
                } else {
                    rep.fail(sig, detail);
                }
                break 'outer;
            }
            pre = post;
        }
    }
    rep.nontrivial = !chk.filled.is_empty() && chk.op_after_fill;
    if chk.low_bucket_touched {
        rep.class("touches-bucket<=3");
    }
    if chk.applied_pending > 0 {
        rep.class("pending-applied-to-full-bucket");
    }
    if chk.dropped_pending_on_reconnect > 0 {
        rep.class("pending-dropped-on-reconnect");
    }
    if chk.max_incoming_reached {
        rep.class("max-incoming-reached");
    }
    if !chk.filled.is_empty() {
        rep.class("bucket-filled-to-16");
    }
    if cfg.pending_zero {
        rep.class("pending-timeout-0");
    } else {
        rep.class("pending-timeout-1h");
    }
    for b in chk.filled.iter() {
        rep.count(format!("filled-bucket-{b:03}"), 1);
    }
    rep
}

impl Property for C07 {
    type Case = Case;
    const ID: &'static str = "C07";
    fn cases(tier: Tier) -> u64 {
        tier.pick(30_000, 500_000)
    }
    fn strategy(tier: Tier) -> BoxedStrategy<Case> {
        let max_ops = tier.pick(120usize, 200usize);
        let table_cases = (config_strategy(), focus_strategy())
            .prop_flat_map(move |(cfg, focus)| {
                let frag = prop_oneof![
                    12 => op_strategy(focus.clone()).prop_map(|o| vec![o]),
                    1 => pending_scenario(focus.clone()),
                    1 => pending_front_replaced(focus),
                ];
                (Just(cfg), proptest::collection::vec(frag, 1..max_ops).prop_map(|v| v.into_iter().flatten().collect::<Vec<_>>()))
            })
            .prop_map(|(cfg, ops)| Case { cfg, ops, svc: None });
        let table = table_cases;
        let step = (prop_oneof![3 => 0u8..90, 1 => 0u8..12], prop_oneof![6 => Just(0u8), 2 => Just(1u8), 1 => Just(2u8), 1 => Just(3u8)]);
        let svc = (config_strategy(), prop_oneof![2 => Just(0u8), 2 => 1u8..4, 1 => 4u8..=16], proptest::collection::vec(step, 20..120))
            .prop_map(|(cfg, limit, steps)| Case { cfg, ops: vec![], svc: Some(SvcLimit { limit, steps }) });
        prop_oneof![150 => table, 1 => svc].boxed()
    }
    fn run(case: &Case) -> CaseReport {
        if let Some(sv) = &case.svc {
            let mut rep = CaseReport::default();
            if let Some((sig, d)) = crate::engines::svc::run_blocking(run_svc_limit(sv, &mut rep)) {
                rep.fail(sig, d);
            }
            return rep;
        }
        run_history(&case.cfg, &case.ops)
    }
    fn rule() -> String {
        "histories of routing-table operations (insert_or_update, update_node, update_node_status, remove, Entry API, iter, closest_keys, nodes_by_distances, take_applied_pending, forced pending expiry; bulk fills expanded; by-construction fragments around a full bucket with a waiting node, incl. the front node leaving and a connected node taking its slot before the time-out) over keys L^d with the highest bit of d chosen per bucket class (0..5, middle, 253..255) and <=20 low-bit patterns per bucket; max_incoming 0..16; pending timeout 0 or 1h. After EVERY elementary op the table is observed through buckets_iter/iter/pending only and S1-S6, P1-P3 are evaluated. One case in 151 is a companion on the service engine: a real Discv5 built from a configuration with incoming_bucket_limit 0..16 (half of them 0..3) takes 20..120 session reports (incoming / outgoing), disconnects and explicit adds for 90 peers; after every step no bucket of Discv5::table_entries() may hold more than 16 nodes or more connected incoming nodes than the CONFIGURED limit. Non-trivial = some bucket reached 16 nodes and a later op addressed that bucket (companion: an incoming session was stored or refused). Distinct = distinct (config, op list).".into()
    }
    fn assumptions() -> Vec<String> {
        vec![
            "pending deadlines are exercised in two exact regimes: timeout 0 (always elapsed at next access) and 1h (elapsed only after the guarded verif_expire_pending hook); behaviour near a deadline is not explored".into(),
            "observation uses the crate's own non-mutating accessors (buckets_iter, KBucket::iter, KBucket::pending + hook verif_key)".into(),
            "recency (S6) is judged against the harness's own ledger of successful status reports".into(),
        ]
    }
}
