//! C14 - Served FINDNODE and PING answers are correct and fit a datagram.

use crate::{
    engines::svc::*,
    ids, keys,
    runner::{CaseReport, Property, Tier},
};
use discv5::{
    packet::{PacketKind, ProtocolIdentity},
    verif::{packet_encode, HandlerIn, HandlerOut, Message, Request, RequestBody, RequestId, Response, ResponseBody, VPacket},
    Enr, NodeAddress,
};
use proptest::prelude::*;
use serde::{Deserialize, Serialize};
use std::{collections::HashSet, net::SocketAddr};

#[derive(Clone, Copy, Debug, PartialEq, Eq, Hash, Serialize, Deserialize)]
pub enum ReqSel {
    Stored(u16),
    Stranger(u8),
    StrangerV6(u8),
    /// a stranger sending from a public address (the table's records advertise private ones)
    StrangerPublic(u8),
    /// a stranger on the loopback interface
    StrangerLoopback(u8),
    /// an IPv6 stranger at ::1 or at an address with 96 leading zero bits (::a.b.c.d)
    StrangerV6Low(u8),
}

#[derive(Clone, Debug, PartialEq, Eq, Hash, Serialize, Deserialize)]
pub enum Step {
    FindNode { ds: Vec<u64>, id: Vec<u8>, requester: ReqSel },
    Ping { enr_seq: u64, id: Vec<u8>, requester: ReqSel, port0: bool },
    /// the application changes the local record (seq bump)
    EnrInsert(u8),
}

#[derive(Clone, Debug, PartialEq, Eq, Hash, Serialize, Deserialize)]
pub struct Case {
    pub dual: bool,
    /// (pool key, record size)
    pub entries: Vec<(u16, u16)>,
    pub max_nodes: Option<u8>,
    pub steps: Vec<Step>,
    /// wire-engine companion (real handlers): a request of a peer whose record does not match the
    /// address it sends from must still reach the application and be answered. When present the
    /// service part is not run.
    #[serde(default)]
    pub wire: Option<WireReq>,
    #[serde(default)]
    pub pipe: Option<Pipe>,
    /// the answering node's own record advertises no UDP socket yet (as before its address is voted in)
    #[serde(default)]
    pub local_no_socket: bool,
}

/// Service and handler composed: the NODES packets a real service emits for a FINDNODE are handed to a
/// real handler (which holds a session with the requester); every one of them must appear on the wire.
#[derive(Clone, Debug, PartialEq, Eq, Hash, Serialize, Deserialize)]
pub struct Pipe {
    /// sizes (100..=300 bytes) of the records in the answering node's table
    pub sizes: Vec<u16>,
}

async fn run_pipe(c: &Pipe, rep: &mut CaseReport) -> Option<(String, String)> {
    use crate::engines::wire::{AppMode, Body, Know, Op, WireConfig, World};
    use crate::engines::wire_interp::act;
    reset_globals();
    rep.class("pipe-companion");
    // the answering node's service
    let mut s = Svc::new(SvcConfig { key_idx: 0, ..Default::default() }).await;
    let mut stored = 0;
    for (j, size) in c.sizes.iter().take(16).enumerate() {
        if s.d.add_enr(keys::padded_record(1 + j as u32, 1, (*size).clamp(100, 300))).is_ok() {
            stored += 1;
        }
    }
    // the answering node's handler V with a session to the requester, whose FINDNODE V's application holds
    let mut resp_mode = vec![AppMode::Immediate; 4];
    resp_mode[0] = AppMode::Manual;
    let cfg = WireConfig {
        n_peers: 1,
        retries: 1,
        filter: false,
        wru_mode: vec![AppMode::Immediate; 4],
        wru_know: vec![Know::Current; 4],
        resp_mode,
        nodes_packets: 1,
        seqs: vec![1; 4],
        nat_peers: vec![],
        nat_kind: 0,
        dual_records: false,
        foreign_enr_answer: vec![],
        v_session_timeout_ms: None,
        v_session_capacity: None,
        v_dual_listen: false,
    };
    let mut w = World::new(cfg).await;
    act(&mut w, &Op::Submit { from: 1, to: 0, body: Body::FindNode(1), with_record: true });
    w.settle().await;
    w.step += 1;
    let mut guard = 0;
    while !w.pool.is_empty() && guard < 60 {
        guard += 1;
        let idx = w.pool.remove(0);
        w.deliver_logged(idx);
        w.settle().await;
        w.step += 1;
    }
    let Some((addr, req)) = std::mem::take(&mut w.nodes[0].held_req).into_iter().next() else {
        return None;
    };
    // the service answers a request with that id for every distance its entries can have
    s.take_outbox();
    s.inject(HandlerOut::Request(addr.clone(), Box::new(Request { id: req.id.clone(), body: RequestBody::FindNode { distances: (225..=256u64).collect() } }))).await;
    let answers: Vec<Response> = s
        .take_outbox()
        .into_iter()
        .filter_map(|m| match m {
            HandlerIn::Response(_, r) if r.id == req.id => Some(*r),
            _ => None,
        })
        .collect();
    s.d.shutdown();
    let log0 = w.log.len();
    let mut fullest = 0usize;
    for r in &answers {
        if let ResponseBody::Nodes { nodes, .. } = &r.body {
            fullest = fullest.max(nodes.iter().map(|n| n.size()).sum());
        }
        let _ = w.nodes[0].vh.to_handler.send(HandlerIn::Response(addr.clone(), Box::new(r.clone())));
    }
    w.settle().await;
    w.step += 1;
    rep.count("pipe_packets", answers.len() as u64);
    rep.count("pipe_records_stored", stored);
    if fullest >= 1150 {
        rep.class("pipe-companion/a-packet-with>=1150-bytes-of-records");
        rep.nontrivial = true;
    }
    let mut on_wire: Vec<Response> = Vec::new();
    for d in &w.log[log0..] {
        if d.from_node != Some(0) {
            continue;
        }
        if let Some((Message::Response(r), _)) = crate::props::c04::decrypt(d, &w.keys_seen[0]) {
            if r.id == req.id && matches!(r.body, ResponseBody::Nodes { .. }) {
                if d.bytes.len() > 1280 {
                    return Some(("nodes/datagram-too-large".into(), format!("a NODES packet of the service left the handler as a datagram of {} bytes", d.bytes.len())));
                }
                on_wire.push(r);
            }
        }
    }
    for r in &answers {
        let n = on_wire.iter().filter(|o| *o == r).count();
        if n != 1 {
            let (cnt, bytes) = match &r.body {
                ResponseBody::Nodes { nodes, .. } => (nodes.len(), nodes.iter().map(|n| n.size()).sum::<usize>()),
                _ => (0, 0),
            };
            return Some((
                if n == 0 { "nodes/packet-of-the-answer-never-sent".to_string() } else { "nodes/packet-of-the-answer-sent-twice".to_string() },
                format!("the service answered a FINDNODE with {} NODES packets (each announcing that total); the packet with {cnt} records ({bytes} bytes of records) went onto the wire {n} times although the handler holds a session with the requester", answers.len()),
            ));
        }
    }
    if on_wire.len() != answers.len() {
        return Some(("nodes/packets-on-the-wire-differ-from-the-answer".into(), format!("{} NODES packets were handed to the handler, {} with that request id went onto the wire", answers.len(), on_wire.len())));
    }
    if let Some(p) = crate::runner::take_panic() {
        return Some((format!("panic-in-task/{}", p.split(':').take(2).collect::<Vec<_>>().join(":")), p));
    }
    None
}

#[derive(Clone, Debug, PartialEq, Eq, Hash, Serialize, Deserialize)]
pub struct WireReq {
    /// what the requester's record advertises: 0 another ip and port, 1 another port, 2 another ip, 3 nothing
    pub nat_kind: u8,
    /// what the answering node knows of the requester: 0 its current record, 1 an older one, 2 nothing
    pub know: u8,
    /// 0 PING, 1 FINDNODE, 2 TALK
    pub body: u8,
    pub requests: u8,
    /// before the requests: the answering node itself contacts the requester WITHOUT knowing its record
    /// (Discv5 API with a bare address + key); its internal record request stays unanswered, so the
    /// requester's requests arrive while the answering node still waits for that record
    #[serde(default)]
    pub awaiting_record: bool,
}

async fn run_wire(c: &WireReq, rep: &mut CaseReport) -> Option<(String, String)> {
    use crate::engines::wire::{AppMode, Body, Know, Op, WireConfig, World};
    use crate::engines::wire_interp::act;
    use discv5::verif::HandlerOut;
    let know = [Know::Current, Know::Older, Know::Nothing][(c.know % 3) as usize];
    let cfg = WireConfig {
        n_peers: 1,
        retries: 1,
        filter: false,
        wru_mode: vec![AppMode::Immediate; 4],
        wru_know: vec![know; 4],
        resp_mode: if c.awaiting_record { vec![AppMode::Immediate, AppMode::Manual, AppMode::Immediate, AppMode::Immediate] } else { vec![AppMode::Immediate; 4] },
        nodes_packets: 1,
        seqs: vec![2; 4],
        nat_peers: if c.awaiting_record { vec![] } else { vec![1] },
        nat_kind: c.nat_kind % 4,
        dual_records: false,
        foreign_enr_answer: vec![],
        v_session_timeout_ms: None,
        v_session_capacity: None,
        v_dual_listen: false,
    };
    let mut w = World::new(cfg).await;
    rep.class("wire-companion");
    rep.class(format!("wire-companion/requester-record-kind-{}", c.nat_kind % 4));
    let body = [Body::Ping, Body::FindNode(1), Body::Talk(5)][(c.body % 3) as usize];
    if c.awaiting_record {
        act(&mut w, &Op::Submit { from: 0, to: 1, body: Body::Ping, with_record: false });
        w.settle().await;
        w.step += 1;
        let mut guard = 0;
        while !w.pool.is_empty() && guard < 60 {
            guard += 1;
            let idx = w.pool.remove(0);
            w.deliver_logged(idx);
            w.settle().await;
            w.step += 1;
        }
        if w.snaps[0].sessions.iter().any(|s| s.addr.socket_addr == w.nodes[1].addr) && w.snaps[0].active.iter().any(|a| a.internal) {
            rep.class("wire-companion/requests-arrive-while-the-answering-node-awaits-the-requester's-record");
        }
    }
    for _ in 0..c.requests.clamp(1, 3) {
        let ev0 = w.events.len();
        act(&mut w, &Op::Submit { from: 1, to: 0, body, with_record: true });
        w.settle().await;
        w.step += 1;
        let mut guard = 0;
        while !w.pool.is_empty() && guard < 60 {
            guard += 1;
            let idx = w.pool.remove(0);
            w.deliver_logged(idx);
            w.settle().await;
            w.step += 1;
        }
        let peer_addr = w.nodes[1].addr;
        let id = w.submitted.last().map(|s| s.id.clone());
        let asked = w.events[ev0..].iter().any(|e| e.node == 0 && matches!(&e.out, HandlerOut::Request(a, r) if a.socket_addr == peer_addr && Some(&r.id) == id.as_ref()));
        let answered = w.events[ev0..].iter().any(|e| e.node == 1 && matches!(&e.out, HandlerOut::Response(_, r) if Some(&r.id) == id.as_ref()));
        if !asked || !answered {
            let failed = w.events[ev0..].iter().find_map(|e| match &e.out {
                HandlerOut::RequestFailed(i, err) if e.node == 1 && Some(i) == id.as_ref() => Some(format!("{err:?}")),
                _ => None,
            });
            return Some((
                "pong/request-of-peer-with-mismatching-record-not-answered".into(),
                format!(
                    "a peer sending from {peer_addr} whose record advertises {:?} sent {body:?}; nothing was lost on the way, but the request {} and the peer got {} (its request ended with {failed:?})",
                    w.nodes[1].enr.udp4_socket(),
                    if asked { "reached the application" } else { "never reached the answering node's application" },
                    if answered { "its answer" } else { "no answer" }
                ),
            ));
        }
        for e in &w.events[ev0..] {
            if let (1, HandlerOut::Response(_, r)) = (e.node, &e.out) {
                if let ResponseBody::Pong { ip, port, .. } = &r.body {
                    if *ip != peer_addr.ip() || port.get() != peer_addr.port() {
                        return Some(("pong/wrong-observed-address".into(), format!("PONG names {ip}:{port}, the request came from {peer_addr}")));
                    }
                }
            }
        }
    }
    rep.nontrivial = true;
    if let Some(p) = crate::runner::take_panic() {
        return Some((format!("panic-in-task/{}", p.split(':').take(2).collect::<Vec<_>>().join(":")), p));
    }
    None
}

pub struct C14;

fn wire_len(resp: &Response) -> usize {
    let plain = Message::Response(resp.clone()).encode();
    let vp = VPacket {
        iv: 0,
        message_nonce: [0; 12],
        protocol_identity: ProtocolIdentity::default(),
        kind: PacketKind::Message { src_id: ids::node_id(&[1u8; 32]) },
        message: vec![0u8; plain.len() + 16],
    };
    packet_encode(vp, &ids::node_id(&[2u8; 32])).len()
}

async fn run(case: &Case, rep: &mut CaseReport) -> Option<(String, String)> {
    reset_globals();
    let max = case.max_nodes.map(|m| m.clamp(1, 120) as usize);
    let mut s = Svc::new(SvcConfig {
        key_idx: 0,
        mode: if case.dual { Mode::Dual } else { Mode::Ip4 },
        max_nodes_response: max,
        local_no_socket: case.local_no_socket,
        ..Default::default()
    })
    .await;
    if case.local_no_socket {
        rep.class("local-record-without-a-socket");
    }
    let max = max.unwrap_or(16);
    let mut stored_keys: Vec<u32> = Vec::new();
    for (k, size) in &case.entries {
        let key = 1 + (*k as u32 % 400);
        if stored_keys.contains(&key) {
            continue;
        }
        let rec = keys::padded_record(key, 1, *size);
        if s.d.add_enr(rec).is_ok() {
            stored_keys.push(key);
        }
    }
    let local_id = s.id;
    let mut big_split = false;
    let mut zero_with_others = false;
    for step in &case.steps {
        let (requester_addr, requester_id, requester_key): (SocketAddr, ids::Id, Option<u32>) = {
            let sel = match step {
                Step::FindNode { requester, .. } | Step::Ping { requester, .. } => *requester,
                Step::EnrInsert(_) => ReqSel::Stranger(0),
            };
            match sel {
                ReqSel::Stored(x) if !stored_keys.is_empty() => {
                    let key = stored_keys[(x as usize * stored_keys.len()) >> 16];
                    let rec = keys::padded_record(key, 1, 100);
                    (SocketAddr::V4(rec.udp4_socket().unwrap()), keys::id_of(key), Some(key))
                }
                ReqSel::StrangerV6(x) if case.dual => (svc_addr6(900 + x as u32), keys::id_of(900 + x as u32), None),
                ReqSel::StrangerPublic(x) => (SocketAddr::new(std::net::IpAddr::V4(std::net::Ipv4Addr::new(198, 51, 100, 7 + x)), 30303 + x as u16), keys::id_of(900 + x as u32), None),
                ReqSel::StrangerV6Low(x) if case.dual => (
                    SocketAddr::new(std::net::IpAddr::V6(if x % 2 == 0 { std::net::Ipv6Addr::LOCALHOST } else { std::net::Ipv6Addr::new(0, 0, 0, 0, 0, 0, 0x0a03, x as u16 + 1) }), 9200 + x as u16),
                    keys::id_of(900 + x as u32),
                    None,
                ),
                ReqSel::StrangerLoopback(x) => (SocketAddr::new(std::net::IpAddr::V4(std::net::Ipv4Addr::LOCALHOST), 9100 + x as u16), keys::id_of(900 + x as u32), None),
                ReqSel::Stored(_) | ReqSel::Stranger(_) | ReqSel::StrangerV6(_) | ReqSel::StrangerV6Low(_) => {
                    let x = match sel {
                        ReqSel::Stranger(x) | ReqSel::StrangerV6(x) | ReqSel::StrangerV6Low(x) => x as u32,
                        _ => 0,
                    };
                    (svc_addr4(900 + x), keys::id_of(900 + x), None)
                }
            }
        };
        match step {
            Step::EnrInsert(v) => {
                let _ = s.d.enr_insert("vrf", &vec![*v]);
                rep.class("local-record-changed");
            }
            Step::Ping { enr_seq, id, port0, .. } => {
                let mut src = requester_addr;
                if *port0 {
                    src.set_port(0);
                }
                let addr = NodeAddress::new(src, ids::node_id(&requester_id));
                s.take_outbox();
                s.inject(HandlerOut::Request(addr.clone(), Box::new(Request { id: RequestId(id.clone()), body: RequestBody::Ping { enr_seq: *enr_seq } }))).await;
                let out = s.take_outbox();
                let pongs: Vec<(&NodeAddress, &Response)> = out
                    .iter()
                    .filter_map(|m| match m {
                        HandlerIn::Response(a, r) if matches!(r.body, ResponseBody::Pong { .. }) => Some((a, &**r)),
                        _ => None,
                    })
                    .collect();
                if *port0 {
                    rep.class("ping-from-port-0");
                    if !pongs.is_empty() {
                        return Some(("pong/answered-port-0".into(), "a PING observed from source port 0 was answered".into()));
                    }
                    continue;
                }
                if pongs.len() != 1 {
                    return Some(("pong/not-exactly-one".into(), format!("{} PONGs for one PING from {src}", pongs.len())));
                }
                let (a, r) = pongs[0];
                let local_seq = s.d.local_enr().seq();
                match &r.body {
                    ResponseBody::Pong { enr_seq: es, ip, port } => {
                        if r.id.0 != *id || *a != addr {
                            return Some(("pong/wrong-id-or-destination".into(), format!("PONG id {} to {a}, request id {} from {addr}", r.id, hex::encode(id))));
                        }
                        if *es != local_seq {
                            return Some(("pong/wrong-enr-seq".into(), format!("PONG carries enr_seq {es}, the local record has seq {local_seq}")));
                        }
                        if *ip != src.ip() || port.get() != src.port() {
                            return Some(("pong/wrong-observed-address".into(), format!("PONG reports {ip}:{port}, the request was observed from {src}")));
                        }
                    }
                    _ => unreachable!(),
                }
            }
            Step::FindNode { ds, id, .. } => {
                let addr = NodeAddress::new(requester_addr, ids::node_id(&requester_id));
                s.take_outbox();
                s.inject(HandlerOut::Request(addr.clone(), Box::new(Request { id: RequestId(id.clone()), body: RequestBody::FindNode { distances: ds.clone() } }))).await;
                let out = s.take_outbox();
                let resps: Vec<(&NodeAddress, &Response)> = out
                    .iter()
                    .filter_map(|m| match m {
                        HandlerIn::Response(a, r) => Some((a, &**r)),
                        _ => None,
                    })
                    .collect();
                // N1
                if resps.is_empty() {
                    return Some(("nodes/no-answer".into(), format!("FINDNODE {ds:?} got no NODES packet")));
                }
                let table: Vec<(ids::Id, Enr)> = s.d.table_entries().into_iter().map(|(i, e, _)| (i.raw(), e)).collect();
                let local = s.d.local_enr();
                let mut union: Vec<Enr> = Vec::new();
                for (a, r) in &resps {
                    if r.id.0 != *id || **a != addr {
                        return Some(("nodes/wrong-id-or-destination".into(), format!("NODES id {} to {a}, request id {} from {addr}", r.id, hex::encode(id))));
                    }
                    match &r.body {
                        ResponseBody::Nodes { total, nodes } => {
                            if *total != resps.len() as u64 {
                                return Some(("nodes/total-differs-from-packet-count".into(), format!("total {total}, {} packets sent", resps.len())));
                            }
                            union.extend(nodes.iter().cloned());
                        }
                        o => return Some(("nodes/wrong-response-kind".into(), format!("FINDNODE answered with {o}"))),
                    }
                    // N3
                    let l = wire_len(r);
                    if l > 1280 {
                        return Some(("nodes/packet-exceeds-1280".into(), format!("a NODES packet encodes to {l} bytes on the wire")));
                    }
                    if l > 1180 {
                        rep.class("nodes-packet>1180-bytes");
                    }
                }
                if ds.iter().any(|d| *d > 256) {
                    rep.exclude("findnode-with-distance>256(assertion-free; the codec rejects it)", 1);
                    continue;
                }
                // N2
                let wanted: HashSet<u64> = ds.iter().copied().collect();
                let zero = wanted.contains(&0);
                let has_local = union.iter().filter(|e| **e == local).count();
                if zero && has_local != 1 {
                    return Some(("nodes/local-record-missing-or-duplicated".into(), format!("distance 0 requested, local record appears {has_local} times")));
                }
                if !zero && union.iter().any(|e| e.node_id().raw() == local_id) {
                    return Some(("nodes/local-record-without-distance-0".into(), format!("local record sent for {ds:?}")));
                }
                let others: Vec<&Enr> = union.iter().filter(|e| e.node_id().raw() != local_id).collect();
                let mut seen = HashSet::new();
                for e in &others {
                    let eid = e.node_id().raw();
                    if !seen.insert(eid) {
                        return Some(("nodes/duplicate-record".into(), format!("record of {} sent twice", hex::encode(&eid[..4]))));
                    }
                    if eid == requester_id {
                        return Some(("nodes/requester-own-record-sent".into(), "the requester's own record was sent back to it".to_string()));
                    }
                    match table.iter().find(|(i, _)| *i == eid) {
                        None => return Some(("nodes/record-not-in-table".into(), format!("record of {} is not a table entry", hex::encode(&eid[..4])))),
                        Some((_, stored)) => {
                            if stored != *e {
                                return Some(("nodes/record-differs-from-table".into(), "sent record differs from the stored one".to_string()));
                            }
                        }
                    }
                    let d = ids::log2(&local_id, &eid) as u64;
                    if !wanted.contains(&d) {
                        return Some(("nodes/record-at-unrequested-distance".into(), format!("record at distance {d} sent for {ds:?}")));
                    }
                }
                if others.len() > max {
                    return Some(("nodes/more-than-max-nodes-response".into(), format!("{} records sent, max_nodes_response {max}", others.len())));
                }
                let eligible_excl = table.iter().filter(|(i, _)| *i != requester_id && wanted.contains(&(ids::log2(&local_id, i) as u64))).count();
                let requester_eligible = requester_key.is_some() && table.iter().any(|(i, _)| *i == requester_id && wanted.contains(&(ids::log2(&local_id, i) as u64)));
                let lower = eligible_excl.min(if requester_eligible { max.saturating_sub(1) } else { max });
                if others.len() < lower {
                    return Some((
                        "nodes/too-few-records".into(),
                        format!("{} records sent for {ds:?}; {eligible_excl} table entries (without the requester) are at those distances, max_nodes_response {max}", others.len()),
                    ));
                }
                let big = others.iter().filter(|e| e.size() >= 280).count();
                if big >= 4 && resps.len() >= 2 {
                    big_split = true;
                }
                if zero && wanted.len() > 1 {
                    zero_with_others = true;
                }
                if resps.len() >= 2 {
                    rep.class(format!("nodes-split-into-{}-packets", resps.len().min(6)));
                }
                if requester_eligible {
                    rep.class("requester-is-eligible-table-entry");
                }
                if ds.is_empty() {
                    rep.class("empty-distance-list");
                }
            }
        }
        if let Some(p) = crate::runner::take_panic() {
            return Some((format!("panic-in-task/{}", p.split(':').take(2).collect::<Vec<_>>().join(":")), p));
        }
    }
    rep.nontrivial = big_split || zero_with_others;
    if big_split {
        rep.class(">=4-records>=280B-forcing-a-split");
    }
    if zero_with_others {
        rep.class("distance-0-together-with-others");
    }
    rep.count("table-entries", stored_keys.len() as u64);
    None
}

fn ds_strategy() -> BoxedStrategy<Vec<u64>> {
    let d = prop_oneof![
        8 => 250u64..=256,
        2 => Just(0u64),
        2 => 1u64..=256,
        1 => 257u64..400,
        1 => any::<u64>(),
    ];
    prop_oneof![
        6 => proptest::collection::vec(d.clone(), 0..6),
        // the lists lookups generate: d, d+1, d-1
        3 => (251u64..=256).prop_map(|x| vec![x, (x + 1).min(256), x - 1]).prop_map(|mut v| { v.dedup(); v }),
        1 => proptest::collection::vec(d.clone(), 6..400),
        // long lists of repeats, the distances that matter at the end (up to what a datagram carries:
        // ~1150 one-byte distances or ~570 two-byte ones)
        1 => (prop_oneof![(1u64..128, 200usize..1150), (128u64..=256, 200usize..570)], proptest::collection::vec(d, 1..4)).prop_map(|((filler, n), tail)| {
            let mut v = vec![filler; n];
            v.extend(tail);
            v
        }),
    ]
    .boxed()
}

fn req_strategy() -> BoxedStrategy<ReqSel> {
    prop_oneof![3 => any::<u16>().prop_map(ReqSel::Stored), 2 => (0u8..4).prop_map(ReqSel::Stranger), 1 => (0u8..4).prop_map(ReqSel::StrangerV6), 1 => (0u8..4).prop_map(ReqSel::StrangerPublic), 1 => (0u8..4).prop_map(ReqSel::StrangerLoopback), 1 => (0u8..4).prop_map(ReqSel::StrangerV6Low)].boxed()
}

impl Property for C14 {
    type Case = Case;
    const ID: &'static str = "C14";
    fn cases(tier: Tier) -> u64 {
        tier.pick(12_000, 150_000)
    }
    fn strategy(_tier: Tier) -> BoxedStrategy<Case> {
        let id = || proptest::collection::vec(any::<u8>(), 0..=8);
        let step = prop_oneof![
            6 => (ds_strategy(), id(), req_strategy()).prop_map(|(ds, id, requester)| Step::FindNode { ds, id, requester }),
            3 => (prop_oneof![Just(0u64), Just(u64::MAX), any::<u64>()], id(), req_strategy(), prop_oneof![6 => Just(false), 1 => Just(true)])
                .prop_map(|(enr_seq, id, requester, port0)| Step::Ping { enr_seq, id, requester, port0 }),
            1 => any::<u8>().prop_map(Step::EnrInsert),
        ];
        let ordinary = (
            any::<bool>(),
            proptest::collection::vec((any::<u16>(), prop_oneof![3 => Just(300u16), 1 => Just(100u16), 2 => 100u16..=300]), 0..60),
            prop_oneof![3 => Just(None), 1 => (1u8..=20).prop_map(Some)],
            proptest::collection::vec(step, 1..8),
            prop_oneof![5 => Just(false), 1 => Just(true)],
        )
            .prop_map(|(dual, entries, max_nodes, steps, local_no_socket)| Case { dual, entries, max_nodes, steps, wire: None, pipe: None, local_no_socket });
        // a large configured maximum and a large table: answers of many packets
        let big_step = (id(), req_strategy(), any::<bool>()).prop_map(|(id, requester, all)| Step::FindNode { ds: if all { (240..=256u64).collect() } else { vec![256, 255, 254, 253, 252] }, id, requester });
        let big = (
            any::<bool>(),
            proptest::collection::vec((any::<u16>(), prop_oneof![4 => Just(300u16), 1 => 100u16..=300]), 70..130),
            (46u8..=120).prop_map(Some),
            proptest::collection::vec(big_step, 1..3),
        )
            .prop_map(|(dual, entries, max_nodes, steps)| Case { dual, entries, max_nodes, steps, wire: None, pipe: None, local_no_socket: false });
        let wire = (0u8..4, 0u8..3, 0u8..3, 1u8..=3, prop_oneof![2 => Just(false), 1 => Just(true)]).prop_map(|(nat_kind, know, body, requests, awaiting_record)| Case { dual: false, entries: vec![], max_nodes: None, steps: vec![], wire: Some(WireReq { nat_kind, know, body, requests, awaiting_record }), pipe: None, local_no_socket: false });
        // record sizes that let the service's packing end a packet anywhere up to its bound of 1175 bytes
        let size = prop_oneof![3 => 100u16..=300, 2 => 286u16..=294, 1 => 230u16..=236, 1 => 191u16..=196, 1 => 164u16..=168];
        let pipe = proptest::collection::vec(size, 4..=16).prop_map(|sizes| Case { dual: false, entries: vec![], max_nodes: None, steps: vec![], wire: None, pipe: Some(Pipe { sizes }), local_no_socket: false });
        prop_oneof![60 => ordinary, 2 => big, 2 => wire, 4 => pipe].boxed()
    }
    fn run(case: &Case) -> CaseReport {
        let mut rep = CaseReport::default();
        if let Some(pc) = &case.pipe {
            if let Some((s, d)) = run_blocking(run_pipe(pc, &mut rep)) {
                rep.fail(s, d);
            }
            return rep;
        }
        if let Some(wc) = &case.wire {
            if let Some((s, d)) = run_blocking(run_wire(wc, &mut rep)) {
                rep.fail(s, d);
            }
            return rep;
        }
        let v = run_blocking(run(case, &mut rep));
        if let Some((s, d)) = v {
            rep.fail(s, d);
        }
        rep
    }
    fn rule() -> String {
        "a real Discv5 service with a scripted handler (IPv4 or dual stack, max_nodes_response default 16 or 1..20; one case in 31: 46..120 with a table of 70..129 records and requests for 5 or 17 distances, i.e. answers of up to ~40 packets) whose table holds 0..59 signed pool records of 100..300 bytes (60% exactly 300 bytes) in the reachable buckets; 1..7 injected requests: FINDNODE with distance lists that are empty / duplicated / unsorted / contain 0, 256, values > 256 (assertion-free) / up to 400 entries / the d,d+1,d-1 lists lookups generate, request ids of 0..8 bytes, requester = a stored node, a stranger (private, public or loopback address), an IPv6 stranger; in one case in 6 the answering node's own record advertises no socket yet; PING with arbitrary enr_seq from a normal source or source port 0; local record changes in between. Oracle on the HandlerIn::Response values the service emits: N1 id, destination, total = number of packets >= 1; N2 local record iff 0 requested, every other record is the stored record of a table entry at a requested distance, never the requester's, no duplicates, at most max_nodes_response, at least min(eligible, max[-1]); N3 each packet, encoded with the real message codec and wrapped as a message datagram with the real packet codec, is <= 1280 bytes; G1 exactly one PONG with the request id, the current local seq and the observed source ip/port; none for port 0. Distance lists: one in 11 is 200..1150 repeats of one distance followed by 1..3 others. Four cases in 68 compose service and handler (pipe companion): a real service whose table holds 4..16 records of 100..300 bytes (sizes chosen so that its packing ends packets anywhere up to the bound of 1175 bytes of records) answers a FINDNODE; its NODES packets are handed to a real handler that holds a session with the requester; each must appear on the wire exactly once, as sent, in a datagram of at most 1280 bytes. Two cases in 68 are a wire-engine companion (real handlers): a peer whose record advertises another ip and port / another port / another ip / nothing than the address it sends from, known to the answering node with its current record, an older one or not at all, sends 1..3 PING / FINDNODE / TALK requests over a loss-free wire: each must reach the answering node's application as coming from the observed address and be answered. Non-trivial = >=4 records of >=280 bytes forcing a split, or distance 0 together with other distances.".into()
    }
    fn assumptions() -> Vec<String> {
        vec![
            "the service talks to a scripted handler (hook start_scripted); table filled through the public add_enr".into(),
            "which eligible entries are chosen when more than the maximum exist is not specified: only the count range is asserted".into(),
        ]
    }
}
