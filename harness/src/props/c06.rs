//! C06 - RPC message codec is exact, total and strict.

use crate::{
    keys,
    refmodel::{
        message::{self as rm, RMsg, RefErr},
        rlp::{self, Item},
    },
    runner::{CaseReport, Property, Tier},
};
use discv5::verif::{Message, Request, RequestBody, RequestId, Response, ResponseBody};
use proptest::prelude::*;
use serde::{Deserialize, Serialize};
use std::net::{IpAddr, Ipv4Addr, Ipv6Addr};

#[derive(Clone, Copy, Debug, PartialEq, Eq, Hash, Serialize, Deserialize)]
pub enum IpSel {
    V4([u8; 4]),
    V6([u8; 16]),
    V6Mapped([u8; 4]),
    V6Compat([u8; 4]),
}

#[derive(Clone, Copy, Debug, PartialEq, Eq, Hash, Serialize, Deserialize)]
pub struct RecSel {
    pub key: u16,
    pub seq: u8,
    pub size: u16,
}

#[derive(Clone, Debug, PartialEq, Eq, Hash, Serialize, Deserialize)]
pub enum SMsg {
    Ping { id: Vec<u8>, enr_seq: u64 },
    Pong { id: Vec<u8>, enr_seq: u64, ip: IpSel, port: u16 },
    FindNode { id: Vec<u8>, distances: Vec<u16> },
    Nodes { id: Vec<u8>, total: u64, recs: Vec<RecSel> },
    TalkReq { id: Vec<u8>, protocol: (u16, u64), request: (u16, u64) },
    TalkResp { id: Vec<u8>, response: (u16, u64) },
}

#[derive(Clone, Debug, PartialEq, Eq, Hash, Serialize, Deserialize)]
pub enum TMut {
    AppendTrailing(u8),
    TruncateEnd(u8),
    /// patch the outer list's length (first length byte) by delta
    OuterLenDelta(i8),
    AddItem(u8, Item),
    RemoveItem(u8),
    WrapItem(u8),
    /// replace the id by one of this length (9..=16 interesting)
    IdLen(u8),
    Distance(u64),
    /// an out-of-range (or any) distance inserted at a position of the list
    DistanceAt(u64, u8),
    PortZero,
    PortWide(u32),
    IpLen(u8),
    FlipRecordBit(u8, u16),
    TruncateRecord(u8, u8),
    /// encode an integer element with a leading zero byte
    LeadingZeroInt(u8),
    /// patch the NODES record list's own length by delta
    RecordListLenDelta(i8),
    /// move the last record outside of the record list (as an extra outer element)
    RecordOutsideList,
    TypeByte(u8),
    /// encode a single byte < 0x80 with a 0x81 prefix at this element
    NonCanonicalSingleByte(u8),
}

#[derive(Clone, Debug, PartialEq, Eq, Hash, Serialize, Deserialize)]
pub enum Case {
    Structured(SMsg),
    Tree { base: SMsg, muts: Vec<TMut> },
    Bytes { len: u16, seed: u64, #[serde(with = "crate::ids::hexvec")] prefix: Vec<u8> },
}

pub struct C06;

fn stream(seed: u64, n: usize) -> Vec<u8> {
    let mut x = seed ^ 0x1234_5678_9ABC_DEF0;
    let mut out = Vec::with_capacity(n + 8);
    while out.len() < n {
        x = x.wrapping_add(0x9E3779B97F4A7C15);
        let mut z = x;
        z = (z ^ (z >> 30)).wrapping_mul(0xBF58476D1CE4E5B9);
        z = (z ^ (z >> 27)).wrapping_mul(0x94D049BB133111EB);
        z ^= z >> 31;
        out.extend_from_slice(&z.to_le_bytes());
    }
    out.truncate(n);
    out
}

fn ip_of(s: &IpSel) -> IpAddr {
    match s {
        IpSel::V4(a) => IpAddr::V4(Ipv4Addr::from(*a)),
        IpSel::V6(a) => IpAddr::V6(Ipv6Addr::from(*a)),
        IpSel::V6Mapped(a) => IpAddr::V6(Ipv4Addr::from(*a).to_ipv6_mapped()),
        IpSel::V6Compat(a) => {
            let mut b = [0u8; 16];
            b[12..].copy_from_slice(a);
            IpAddr::V6(Ipv6Addr::from(b))
        }
    }
}

/// The documented normalisation of PONG addresses on decode: IPv4-mapped / -compatible IPv6
/// addresses (except the loopback ::1) are reported as IPv4.
fn normalise_ip(ip: IpAddr) -> IpAddr {
    match ip {
        IpAddr::V4(_) => ip,
        IpAddr::V6(v6) => {
            if v6.is_loopback() {
                ip
            } else if let Some(v4) = v6.to_ipv4() {
                IpAddr::V4(v4)
            } else {
                ip
            }
        }
    }
}

fn record(r: &RecSel) -> discv5::Enr {
    // one record in 16 is signed with an Ed25519 key (a valid record of another identity scheme)
    if r.key % 16 == 15 {
        return crate::engines::wire::ed_record((r.key / 16) as u8 % 8);
    }
    keys::padded_record(r.key as u32 % 64, r.seq.max(1), r.size.max(60))
}

fn to_ref(m: &SMsg) -> RMsg {
    match m {
        SMsg::Ping { id, enr_seq } => RMsg::Ping { id: id.clone(), enr_seq: *enr_seq },
        SMsg::Pong { id, enr_seq, ip, port } => RMsg::Pong { id: id.clone(), enr_seq: *enr_seq, ip: ip_of(ip), port: (*port).max(1) },
        SMsg::FindNode { id, distances } => RMsg::FindNode { id: id.clone(), distances: distances.iter().map(|d| *d as u64).collect() },
        SMsg::Nodes { id, total, recs } => RMsg::Nodes {
            id: id.clone(),
            total: *total,
            records: recs.iter().map(|r| alloy_rlp::encode(record(r))).collect(),
        },
        SMsg::TalkReq { id, protocol, request } => RMsg::TalkReq {
            id: id.clone(),
            protocol: stream(protocol.1, protocol.0 as usize),
            request: stream(request.1, request.0 as usize),
        },
        SMsg::TalkResp { id, response } => RMsg::TalkResp { id: id.clone(), response: stream(response.1, response.0 as usize) },
    }
}

fn to_crate(m: &SMsg) -> Message {
    match m {
        SMsg::Ping { id, enr_seq } => Message::Request(Request { id: RequestId(id.clone()), body: RequestBody::Ping { enr_seq: *enr_seq } }),
        SMsg::Pong { id, enr_seq, ip, port } => Message::Response(Response {
            id: RequestId(id.clone()),
            body: ResponseBody::Pong { enr_seq: *enr_seq, ip: ip_of(ip), port: std::num::NonZeroU16::new((*port).max(1)).unwrap() },
        }),
        SMsg::FindNode { id, distances } => Message::Request(Request {
            id: RequestId(id.clone()),
            body: RequestBody::FindNode { distances: distances.iter().map(|d| *d as u64).collect() },
        }),
        SMsg::Nodes { id, total, recs } => Message::Response(Response {
            id: RequestId(id.clone()),
            body: ResponseBody::Nodes { total: *total, nodes: recs.iter().map(record).collect() },
        }),
        SMsg::TalkReq { id, protocol, request } => Message::Request(Request {
            id: RequestId(id.clone()),
            body: RequestBody::Talk { protocol: stream(protocol.1, protocol.0 as usize), request: stream(request.1, request.0 as usize) },
        }),
        SMsg::TalkResp { id, response } => Message::Response(Response {
            id: RequestId(id.clone()),
            body: ResponseBody::Talk { response: stream(response.1, response.0 as usize) },
        }),
    }
}

fn crate_to_ref(m: &Message) -> RMsg {
    match m {
        Message::Request(r) => {
            let id = r.id.0.clone();
            match &r.body {
                RequestBody::Ping { enr_seq } => RMsg::Ping { id, enr_seq: *enr_seq },
                RequestBody::FindNode { distances } => RMsg::FindNode { id, distances: distances.clone() },
                RequestBody::Talk { protocol, request } => RMsg::TalkReq { id, protocol: protocol.clone(), request: request.clone() },
            }
        }
        Message::Response(r) => {
            let id = r.id.0.clone();
            match &r.body {
                ResponseBody::Pong { enr_seq, ip, port } => RMsg::Pong { id, enr_seq: *enr_seq, ip: *ip, port: port.get() },
                ResponseBody::Nodes { total, nodes } => RMsg::Nodes { id, total: *total, records: nodes.iter().map(alloy_rlp::encode).collect() },
                ResponseBody::Talk { response } => RMsg::TalkResp { id, response: response.clone() },
            }
        }
    }
}

fn normalise(m: RMsg) -> RMsg {
    match m {
        RMsg::Pong { id, enr_seq, ip, port } => RMsg::Pong { id, enr_seq, ip: normalise_ip(ip), port },
        o => o,
    }
}

fn boundary(v: u64) -> bool {
    matches!(v, 0 | 1 | 0x7f | 0x80 | 0xff | 0x100 | 0xffff_ffff | 0x1_0000_0000 | u64::MAX)
}

fn run_structured(m: &SMsg, rep: &mut CaseReport) {
    let cm = to_crate(m);
    if let Message::Response(r) = &cm {
        if let ResponseBody::Nodes { nodes, .. } = &r.body {
            if nodes.iter().any(|e| e.size() == 300) {
                rep.class("structured-nodes-with-a-record-of-exactly-300-bytes");
            }
        }
    }
    let rmsg = to_ref(m);
    let enc = cm.clone().encode();
    let renc = rm::encode(&rmsg);
    if enc != renc {
        let at = enc.iter().zip(renc.iter()).position(|(a, b)| a != b).unwrap_or(enc.len().min(renc.len()));
        rep.fail(
            "message/encoding-differs-from-spec-layout",
            format!("encode() differs from the reference RLP layout at byte {at}: crate {} reference {} for {m:?}", hex::encode(&enc[..enc.len().min(64)]), hex::encode(&renc[..renc.len().min(64)])),
        );
        return;
    }
    match Message::decode(&enc) {
        Err(e) => {
            rep.fail("message/roundtrip-rejected", format!("decode(encode(m)) failed: {e:?} for {m:?}"));
            return;
        }
        Ok(d) => {
            let expect = normalise(rmsg.clone());
            if crate_to_ref(&d) != expect {
                rep.fail("message/roundtrip-different-message", format!("decode(encode(m)) = {d:?}, expected {expect:?}"));
                return;
            }
            // idempotence
            match Message::decode(&d.clone().encode()) {
                Ok(d2) if d2 == d => {}
                other => {
                    rep.fail("message/decode-encode-not-idempotent", format!("decode(encode(decode(b))) = {other:?}"));
                    return;
                }
            }
        }
    }
    let nontrivial = match m {
        SMsg::Nodes { recs, total, .. } => recs.len() >= 2 || boundary(*total),
        SMsg::Ping { enr_seq, .. } => boundary(*enr_seq),
        SMsg::Pong { enr_seq, ip, .. } => boundary(*enr_seq) || matches!(ip, IpSel::V6Mapped(_) | IpSel::V6Compat(_)),
        SMsg::FindNode { distances, .. } => distances.iter().any(|d| *d == 0 || *d == 256) || distances.is_empty(),
        SMsg::TalkReq { protocol, request, .. } => protocol.0 == 0 || request.0 == 0 || request.0 >= 56,
        SMsg::TalkResp { response, .. } => response.0 == 0 || response.0 >= 56,
    };
    rep.nontrivial = nontrivial;
    rep.class(format!("structured/{}", format!("{m:?}").split(' ').next().unwrap_or("")));
    if let SMsg::Pong { ip: IpSel::V6Mapped(_) | IpSel::V6Compat(_), .. } = m {
        rep.class("structured/pong-ipv4-mapped-or-compatible");
    }
}

fn judge(data: &[u8], rep: &mut CaseReport) {
    let got = Message::decode(data);
    let want = rm::decode(data);
    match (&got, &want) {
        (Ok(m), Ok(r)) => {
            let expect = normalise(r.clone());
            if crate_to_ref(m) != expect {
                rep.fail("message/decoded-value-differs-from-reference", format!("crate {m:?}\nreference {expect:?}"));
                return;
            }
            match Message::decode(&m.clone().encode()) {
                Ok(d2) if &d2 == m => {}
                other => {
                    rep.fail("message/decode-encode-not-idempotent", format!("decode(encode(decode(b))) = {other:?} for b = {}", hex::encode(&data[..data.len().min(80)])));
                    return;
                }
            }
            rep.class("raw-accepted");
        }
        (Ok(m), Err(e)) => {
            if e.must_reject() {
                rep.fail(
                    format!("message/accepted-invalid/{e:?}"),
                    format!("crate accepted {} which the statement says must be rejected ({e:?}); decoded as {m:?}", hex::encode(&data[..data.len().min(120)])),
                );
                return;
            }
            rep.count(format!("tolerated_leniency/{e:?}"), 1);
            // still idempotent
            match Message::decode(&m.clone().encode()) {
                Ok(d2) if &d2 == m => {}
                other => {
                    rep.fail("message/decode-encode-not-idempotent", format!("decode(encode(decode(b))) = {other:?}"));
                }
            }
        }
        (Err(e), Ok(r)) => {
            rep.fail("message/rejected-valid", format!("crate rejected ({e:?}) {} which the reference decodes as {r:?}", hex::encode(&data[..data.len().min(120)])));
        }
        (Err(_), Err(e)) => rep.class(format!("raw-rejected/{e:?}")),
    }
    // non-trivial: the outer RLP header is a list with a consistent length (reaches per-type logic)
    rep.nontrivial = match &want {
        Ok(_) => true,
        Err(e) => !matches!(e, RefErr::TooShort | RefErr::OuterNotList | RefErr::OuterLength | RefErr::Truncated | RefErr::NonCanonical | RefErr::IntOverflow) || data.len() > 3 && {
            match rlp::header(&data[1..]) {
                Ok((true, off, len)) => off + len == data.len() - 1,
                _ => false,
            }
        },
    };
}

fn tree_of(m: &RMsg) -> (u8, Vec<Item>) {
    match m {
        RMsg::Ping { id, enr_seq } => (1, vec![Item::Bytes(id.clone()), rlp::encode_uint(*enr_seq)]),
        RMsg::Pong { id, enr_seq, ip, port } => (
            2,
            vec![
                Item::Bytes(id.clone()),
                rlp::encode_uint(*enr_seq),
                Item::Bytes(match ip {
                    IpAddr::V4(a) => a.octets().to_vec(),
                    IpAddr::V6(a) => a.octets().to_vec(),
                }),
                rlp::encode_uint(*port as u64),
            ],
        ),
        RMsg::FindNode { id, distances } => (3, vec![Item::Bytes(id.clone()), Item::List(distances.iter().map(|d| rlp::encode_uint(*d)).collect())]),
        RMsg::Nodes { id, total, records } => (
            4,
            vec![Item::Bytes(id.clone()), rlp::encode_uint(*total), Item::List(records.iter().map(|r| Item::Raw(r.clone())).collect())],
        ),
        RMsg::TalkReq { id, protocol, request } => (5, vec![Item::Bytes(id.clone()), Item::Bytes(protocol.clone()), Item::Bytes(request.clone())]),
        RMsg::TalkResp { id, response } => (6, vec![Item::Bytes(id.clone()), Item::Bytes(response.clone())]),
    }
}

fn run_tree(base: &SMsg, muts: &[TMut], rep: &mut CaseReport) {
    let (mut t, mut items) = tree_of(&to_ref(base));
    let mut trailing: Vec<u8> = Vec::new();
    let mut truncate = 0usize;
    let mut outer_delta: i8 = 0;
    let mut extra_outer: Vec<Item> = Vec::new();
    for m in muts {
        rep.class(format!("mut/{}", format!("{m:?}").split(|c: char| c == '(' || c == ' ').next().unwrap_or("")));
        let n = items.len().max(1);
        match m {
            TMut::AppendTrailing(k) => trailing.extend_from_slice(&stream(*k as u64, (*k).max(1) as usize % 9)),
            TMut::TruncateEnd(k) => truncate += (*k as usize % 8) + 1,
            TMut::OuterLenDelta(d) => outer_delta = outer_delta.wrapping_add(if *d == 0 { 1 } else { *d }),
            TMut::AddItem(pos, it) => {
                let p = (*pos as usize) % (items.len() + 1);
                items.insert(p, it.clone());
            }
            TMut::RemoveItem(pos) => {
                if !items.is_empty() {
                    items.remove(*pos as usize % n);
                }
            }
            TMut::WrapItem(pos) => {
                if !items.is_empty() {
                    let p = *pos as usize % n;
                    let it = items[p].clone();
                    items[p] = Item::List(vec![it]);
                }
            }
            TMut::IdLen(l) => {
                if !items.is_empty() {
                    items[0] = Item::Bytes(stream(*l as u64 + 77, *l as usize % 20));
                }
            }
            TMut::Distance(d) => {
                if t == 3 && items.len() > 1 {
                    if let Item::List(ds) = &mut items[1] {
                        ds.push(rlp::encode_uint(*d));
                    }
                }
            }
            TMut::DistanceAt(d, pos) => {
                if t == 3 && items.len() > 1 {
                    if let Item::List(ds) = &mut items[1] {
                        let at = (*pos as usize * (ds.len() + 1)) >> 8;
                        ds.insert(at, rlp::encode_uint(*d));
                    }
                }
            }
            TMut::PortZero => {
                if t == 2 && items.len() > 3 {
                    items[3] = rlp::encode_uint(0);
                }
            }
            TMut::PortWide(p) => {
                if t == 2 && items.len() > 3 {
                    items[3] = rlp::encode_uint(*p as u64);
                }
            }
            TMut::IpLen(l) => {
                if t == 2 && items.len() > 2 {
                    items[2] = Item::Bytes(stream(*l as u64 + 5, *l as usize % 20));
                }
            }
            TMut::FlipRecordBit(r, bit) => {
                if t == 4 && items.len() > 2 {
                    if let Item::List(rs) = &mut items[2] {
                        if !rs.is_empty() {
                            let i = *r as usize % rs.len();
                            if let Item::Raw(b) = &mut rs[i] {
                                let pos = (*bit as usize * b.len() * 8) >> 16;
                                b[pos / 8] ^= 1 << (pos % 8);
                            }
                        }
                    }
                }
            }
            TMut::TruncateRecord(r, k) => {
                if t == 4 && items.len() > 2 {
                    if let Item::List(rs) = &mut items[2] {
                        if !rs.is_empty() {
                            let i = *r as usize % rs.len();
                            if let Item::Raw(b) = &mut rs[i] {
                                let cut = (*k as usize % 20) + 1;
                                let l = b.len().saturating_sub(cut);
                                b.truncate(l);
                            }
                        }
                    }
                }
            }
            TMut::LeadingZeroInt(pos) => {
                let p = *pos as usize % n;
                if let Some(Item::Bytes(b)) = items.get_mut(p) {
                    if p != 0 {
                        b.insert(0, 0);
                    }
                }
            }
            TMut::RecordListLenDelta(d) => {
                if t == 4 && items.len() > 2 {
                    if let Item::List(rs) = &items[2] {
                        let mut body = Vec::new();
                        for r in rs {
                            rlp::encode(r, &mut body);
                        }
                        let newlen = (body.len() as i64 + if *d == 0 { 1 } else { *d as i64 }).max(0) as usize;
                        let mut raw = Vec::new();
                        // re-use the list prefix logic by encoding a dummy byte string of that length
                        let mut hdr = Vec::new();
                        rlp::encode(&Item::List(vec![Item::Raw(vec![0u8; newlen])]), &mut hdr);
                        raw.extend_from_slice(&hdr[..hdr.len() - newlen]);
                        raw.extend_from_slice(&body);
                        items[2] = Item::Raw(raw);
                    }
                }
            }
            TMut::RecordOutsideList => {
                if t == 4 && items.len() > 2 {
                    if let Item::List(rs) = &mut items[2] {
                        if let Some(last) = rs.pop() {
                            extra_outer.push(last);
                        }
                    }
                }
            }
            TMut::TypeByte(b) => t = *b,
            TMut::NonCanonicalSingleByte(pos) => {
                let p = *pos as usize % n;
                if let Some(Item::Bytes(b)) = items.get(p) {
                    if b.len() == 1 && b[0] < 0x80 {
                        items[p] = Item::Raw(vec![0x81, b[0]]);
                    } else if b.is_empty() {
                        items[p] = Item::Raw(vec![0x81, 0x00]);
                    }
                }
            }
        }
    }
    items.extend(extra_outer);
    let mut data = vec![t];
    rlp::encode(&Item::List(items), &mut data);
    if outer_delta != 0 && data.len() > 1 {
        // patch the (last) length byte of the outer header
        let b = data[1];
        let idx = if b >= 0xf8 { 1 + (b - 0xf7) as usize } else { 1 };
        if idx < data.len() {
            data[idx] = data[idx].wrapping_add(outer_delta as u8);
        }
    }
    data.extend_from_slice(&trailing);
    let l = data.len().saturating_sub(truncate);
    data.truncate(l);
    judge(&data, rep);
}

pub fn run_case(case: &Case) -> CaseReport {
    let mut rep = CaseReport::default();
    match case {
        Case::Structured(m) => run_structured(m, &mut rep),
        Case::Tree { base, muts } => run_tree(base, muts, &mut rep),
        Case::Bytes { len, seed, prefix } => {
            let mut data = prefix.clone();
            data.extend_from_slice(&stream(*seed, (*len as usize).saturating_sub(prefix.len())));
            data.truncate(*len as usize);
            rep.class("bytes");
            judge(&data, &mut rep);
        }
    }
    rep
}

fn id_strategy() -> BoxedStrategy<Vec<u8>> {
    prop_oneof![
        4 => proptest::collection::vec(any::<u8>(), 0..=8),
        1 => Just(vec![]),
        1 => Just(vec![0]),
        1 => Just(vec![0x7f]),
        1 => Just(vec![0x80]),
        1 => Just(vec![0, 0, 1]),
        1 => Just(vec![0xff; 8]),
    ]
    .boxed()
}

fn u64_strategy() -> BoxedStrategy<u64> {
    prop_oneof![
        3 => any::<u64>(),
        1 => Just(0u64), 1 => Just(1u64), 1 => Just(0x7fu64), 1 => Just(0x80u64), 1 => Just(0xffu64), 1 => Just(0x100u64),
        1 => Just(1u64 << 32), 1 => Just(u64::MAX),
        2 => 0u64..300,
    ]
    .boxed()
}

fn ip_strategy() -> BoxedStrategy<IpSel> {
    prop_oneof![
        4 => any::<[u8; 4]>().prop_map(IpSel::V4),
        4 => any::<[u8; 16]>().prop_map(|mut a| { if a[..10] == [0u8; 10] { a[0] = 0x20; } IpSel::V6(a) }),
        1 => any::<[u8; 4]>().prop_map(IpSel::V6Mapped),
        1 => prop_oneof![any::<[u8; 4]>(), Just([0u8; 4]), Just([0, 0, 0, 1])].prop_map(IpSel::V6Compat),
    ]
    .boxed()
}

fn rec_strategy() -> BoxedStrategy<RecSel> {
    (any::<u16>(), 1u8..4, prop_oneof![Just(60u16), Just(300u16), 60u16..=300]).prop_map(|(key, seq, size)| RecSel { key, seq, size }).boxed()
}

fn blob() -> BoxedStrategy<(u16, u64)> {
    (prop_oneof![3 => 0u16..60, 1 => Just(55u16), 1 => Just(56u16), 2 => 0u16..1200], any::<u64>()).boxed()
}

fn smsg_strategy() -> BoxedStrategy<SMsg> {
    prop_oneof![
        2 => (id_strategy(), u64_strategy()).prop_map(|(id, enr_seq)| SMsg::Ping { id, enr_seq }),
        3 => (id_strategy(), u64_strategy(), ip_strategy(), prop_oneof![1u16..=65535, Just(1u16), Just(65535u16), Just(127u16), Just(128u16), Just(256u16)])
            .prop_map(|(id, enr_seq, ip, port)| SMsg::Pong { id, enr_seq, ip, port }),
        3 => (id_strategy(), proptest::collection::vec(prop_oneof![3 => 0u16..=256, 1 => Just(0u16), 1 => Just(256u16), 1 => Just(127u16), 1 => Just(128u16)], 0..64))
            .prop_map(|(id, distances)| SMsg::FindNode { id, distances }),
        4 => (id_strategy(), u64_strategy(), proptest::collection::vec(rec_strategy(), 0..16)).prop_map(|(id, total, recs)| SMsg::Nodes { id, total, recs }),
        2 => (id_strategy(), blob(), blob()).prop_map(|(id, protocol, request)| SMsg::TalkReq { id, protocol, request }),
        2 => (id_strategy(), blob()).prop_map(|(id, response)| SMsg::TalkResp { id, response }),
    ]
    .boxed()
}

fn small_item() -> BoxedStrategy<Item> {
    prop_oneof![
        Just(Item::Bytes(vec![])),
        Just(Item::Bytes(vec![1])),
        Just(Item::List(vec![])),
        proptest::collection::vec(any::<u8>(), 0..6).prop_map(Item::Bytes),
    ]
    .boxed()
}

fn tmut_strategy() -> BoxedStrategy<TMut> {
    prop_oneof![
        3 => any::<u8>().prop_map(TMut::AppendTrailing),
        3 => any::<u8>().prop_map(TMut::TruncateEnd),
        3 => prop_oneof![Just(1i8), Just(-1i8), -8i8..=8].prop_map(TMut::OuterLenDelta),
        3 => (any::<u8>(), small_item()).prop_map(|(p, i)| TMut::AddItem(p, i)),
        3 => any::<u8>().prop_map(TMut::RemoveItem),
        2 => any::<u8>().prop_map(TMut::WrapItem),
        3 => prop_oneof![9u8..=16, 0u8..20].prop_map(TMut::IdLen),
        2 => prop_oneof![Just(257u64), 257u64..1000, any::<u64>()].prop_map(TMut::Distance),
        3 => (prop_oneof![Just(257u64), 257u64..1000, any::<u64>()], any::<u8>()).prop_map(|(d, p)| TMut::DistanceAt(d, p)),
        2 => Just(TMut::PortZero),
        1 => prop_oneof![Just(65536u32), any::<u32>()].prop_map(TMut::PortWide),
        3 => prop_oneof![Just(0u8), Just(1), Just(3), Just(5), Just(15), Just(17), 0u8..20].prop_map(TMut::IpLen),
        4 => (any::<u8>(), any::<u16>()).prop_map(|(r, b)| TMut::FlipRecordBit(r, b)),
        2 => (any::<u8>(), any::<u8>()).prop_map(|(r, k)| TMut::TruncateRecord(r, k)),
        2 => any::<u8>().prop_map(TMut::LeadingZeroInt),
        2 => prop_oneof![Just(1i8), Just(-1i8), -8i8..=8].prop_map(TMut::RecordListLenDelta),
        2 => Just(TMut::RecordOutsideList),
        1 => any::<u8>().prop_map(TMut::TypeByte),
        1 => any::<u8>().prop_map(TMut::NonCanonicalSingleByte),
    ]
    .boxed()
}

impl Property for C06 {
    type Case = Case;
    const ID: &'static str = "C06";
    fn cases(tier: Tier) -> u64 {
        tier.pick(200_000, 8_000_000)
    }
    fn strategy(_tier: Tier) -> BoxedStrategy<Case> {
        let bytes = (
            prop_oneof![0u16..4, 0u16..64, 0u16..600],
            any::<u64>(),
            prop_oneof![
                proptest::collection::vec(any::<u8>(), 0..24),
                // a plausible start: type byte + list prefix
                (1u8..=7, 0xc0u8..=0xf9, proptest::collection::vec(any::<u8>(), 0..16)).prop_map(|(t, l, mut v)| { let mut o = vec![t, l]; o.append(&mut v); o }),
            ],
        )
            .prop_map(|(len, seed, prefix)| Case::Bytes { len, seed, prefix });
        prop_oneof![
            4 => smsg_strategy().prop_map(Case::Structured),
            6 => (smsg_strategy(), proptest::collection::vec(tmut_strategy(), 1..4)).prop_map(|(base, muts)| Case::Tree { base, muts }),
            2 => bytes,
        ]
        .boxed()
    }
    fn run(case: &Case) -> CaseReport {
        run_case(case)
    }
    fn rule() -> String {
        "three generators: (1) structured messages of the six kinds (ids of 0..8 bytes incl. leading zeros / 0x00 / 0x7f / 0x80, u64 fields with boundary bias, 0..63 distances in 0..=256, PONG ip in {v4, v6, v4-mapped v6, v4-compatible v6 incl. ::}, ports 1..65535, NODES with 0..15 signed pool records of 60..300 bytes (one in 16 an Ed25519-signed record), TALK blobs of 0..1200 bytes incl. the 55/56-byte RLP boundary): encode byte-equal to the reference RLP layout, decode(encode(m)) = m (mapped/compatible addresses expected as IPv4, by design), decode-encode idempotent; (2) RLP-structure mutations of valid messages (trailing/missing bytes, outer length +-k, add/remove/wrap an element, 9..16-byte id, distance > 256, port 0 / > 65535, ip length in {0,1,3,5,15,17}, bit flips / truncation inside a record, leading-zero integers, record-list length +-k, record outside the list, type byte, non-canonical single byte): crate decoder compared with a reference decoder; crate-accepts/reference-rejects is a violation when the reason is on the statement's must-reject list; crate-rejects/reference-accepts is a violation; (3) arbitrary bytes: totality + differential. Non-trivial: (1) NODES with >=2 records or a boundary field value; (2),(3) the outer RLP header is a list with consistent length (reaches per-type logic).".into()
    }
    fn assumptions() -> Vec<String> {
        vec![
            "the reference codec (harness/src/refmodel/{rlp,message}.rs) is written from the specification; records are validated with the enr crate (outside the repository under test)".into(),
            "IPv4-mapped/-compatible IPv6 PONG addresses decode to IPv4 by design (documented in the crate's tests)".into(),
            "leniencies outside the statement's reject list (e.g. a NODES record list whose own length prefix disagrees with the items, wrong RLP kind of an element, non-canonical integers if any) are counted as tolerated_leniency, not reported".into(),
        ]
    }
}
