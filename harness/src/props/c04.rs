//! C04 - Every request gets exactly one outcome.

use crate::{
    engines::{wire::*, wire_interp::*},
    ids,
    props::wire_gen,
    runner::{CaseReport, Property, Tier},
};
use discv5::{
    packet::PacketKind,
    verif::{self as hv, HandlerOut, Message, RequestId, ResponseBody},
    RequestError,
};
use proptest::prelude::*;
use serde::{Deserialize, Serialize};
use std::{collections::HashMap, net::SocketAddr};

#[derive(Clone, Debug, PartialEq, Eq, Hash, Serialize, Deserialize)]
pub struct Case {
    pub cfg: WireConfig,
    pub ops: Vec<Op>,
    pub drain: Drain,
}

pub struct C04;

#[derive(Default, Clone, Debug)]
struct ReqState {
    resp: u64,
    fail: u64,
    k: Option<u64>,
    /// multi-packet answers: packets still expected after the first one
    remaining: Option<u64>,
    terminal: bool,
    /// when the terminal outcome was observed
    t_terminal: Option<u64>,
    node: usize,
    to_addr: Option<SocketAddr>,
    t_submit: u64,
    after_restart_gen: u32,
}

/// Decrypts a logged datagram with any of the given keys.
pub fn decrypt(dg: &Datagram, keys: &[[u8; 16]]) -> Option<(Message, [u8; 16])> {
    let (p, aad) = dg.decoded.as_ref()?;
    match p.kind {
        PacketKind::WhoAreYou { .. } => None,
        _ => {
            for k in keys {
                if let Ok(pt) = hv::decrypt_message(k, p.message_nonce, &p.message, aad) {
                    if let Ok(m) = Message::decode(&pt) {
                        return Some((m, *k));
                    }
                }
            }
            None
        }
    }
}

#[derive(Default)]
pub struct Outcomes {
    reqs: HashMap<(usize, RequestId), ReqState>,
    /// (node, peer addr, request id) -> first time seen active (ms), internal?
    first_seen: HashMap<(usize, SocketAddr, RequestId), (u64, bool)>,
    /// responses delivered to a node: (node, from addr, request id) -> (count, total)
    delivered: HashMap<(usize, SocketAddr, RequestId), (u64, u64)>,
    seen_events: usize,
    seen_inj: usize,
    single_request_timeouts: u64,
    // statistics
    overlap_with_fault: bool,
    faults: Vec<String>,
    timeouts: u64,
    responses: u64,
    failures: u64,
    unknown_id_events: u64,
}

impl Outcomes {
    fn fault(&mut self, f: &str) {
        if !self.faults.iter().any(|x| x == f) {
            self.faults.push(f.to_string());
        }
    }
}

impl Oracle for Outcomes {
    fn after_step(&mut self, w: &World, op: &Op) -> Option<(String, String)> {
        // register new submissions
        for s in &w.submitted {
            self.reqs.entry((s.from, s.id.clone())).or_insert_with(|| ReqState {
                node: s.from,
                to_addr: Some(s.to_addr),
                t_submit: s.t_ms,
                after_restart_gen: w.nodes[s.from].restarts,
                ..Default::default()
            });
        }
        match op {
            Op::Drop(_) => self.fault("drop"),
            Op::Dup(_) => self.fault("duplicate"),
            Op::Restart(_) => self.fault("restart"),
            Op::AnswerWru { .. } => self.fault("late-whoareyou-answer"),
            Op::Respond { .. } => self.fault("late-response"),
            _ => {}
        }
        // snapshot ledger: first sighting of active requests
        let now = w.now_ms();
        for (i, s) in w.snaps.iter().enumerate() {
            for a in &s.active {
                self.first_seen.entry((i, a.addr.socket_addr, a.id.clone())).or_insert((now, a.internal));
            }
            // WHOAREYOU while a session exists
            if !s.challenges.is_empty() && s.challenges.iter().any(|(c, _)| s.sessions.iter().any(|x| x.addr == *c)) {
                self.fault("challenge-while-session-exists");
            }
        }
        // events
        let evs: Vec<EvRec> = w.events[self.seen_events..].to_vec();
        self.seen_events = w.events.len();
        for e in evs {
            match &e.out {
                HandlerOut::Response(addr, resp) => {
                    self.responses += 1;
                    let Some(st) = self.reqs.get_mut(&(e.node, resp.id.clone())) else {
                        // a response to a handler-internal request surfaced to the application: not
                        // covered by the statement (which speaks of submitted requests); counted only
                        let _ = addr;
                        self.unknown_id_events += 1;
                        continue;
                    };
                    if st.terminal {
                        return Some((
                            if st.fail > 0 { "outcome/response-after-failure".into() } else { "outcome/response-after-completion".into() },
                            format!("node {}: request {} got a response after its terminal outcome (resp {}, fail {}, k {:?})", e.node, resp.id, st.resp, st.fail, st.k),
                        ));
                    }
                    st.resp += 1;
                    let k = match &resp.body {
                        ResponseBody::Nodes { total, .. } => (*total).max(1),
                        _ => 1,
                    };
                    // which packet completes the request: the first multi-packet answer announces how
                    // many packets are expected (later totals do not change that), and a packet that
                    // announces a total of at most 1 always completes it. (A peer whose application saw
                    // the request twice - re-encryption after a re-keying - may answer twice with
                    // different totals.)
                    if k <= 1 {
                        st.terminal = true;
                        st.t_terminal = Some(e.t_ms);
                    } else {
                        match st.remaining {
                            None => st.remaining = Some(k - 1),
                            Some(r) => {
                                let r = r.saturating_sub(1);
                                st.remaining = Some(r);
                                if r == 0 {
                                    st.terminal = true;
                                    st.t_terminal = Some(e.t_ms);
                                }
                            }
                        }
                    }
                    if st.k.is_none() {
                        st.k = Some(k);
                    }
                }
                HandlerOut::RequestFailed(id, err) => {
                    self.failures += 1;
                    let Some(st) = self.reqs.get_mut(&(e.node, id.clone())) else {
                        self.unknown_id_events += 1;
                        continue;
                    };
                    if st.terminal {
                        return Some((
                            if st.fail > 0 { "outcome/two-failures".into() } else { "outcome/failure-after-completion".into() },
                            format!("node {}: request {id} reported failed ({err:?}) after its terminal outcome (resp {}, fail {})", e.node, st.resp, st.fail),
                        ));
                    }
                    st.fail += 1;
                    st.terminal = true;
                    st.t_terminal = Some(e.t_ms);
                    if matches!(err, RequestError::Timeout) {
                        self.timeouts += 1;
                        // --- timeouts are earned
                        let st = st.clone();
                        if let Some(peer) = st.to_addr {
                            let t = e.t_ms;
                            let slack = 120;
                            let earned = self.first_seen.iter().any(|((n, a, qid), (tq, _))| {
                                if *n != e.node || *a != peer {
                                    return false;
                                }
                                // external requests: submission time (earlier, lenient)
                                let tq = self.reqs.get(&(e.node, qid.clone())).map(|r| r.t_submit.min(*tq)).unwrap_or(*tq);
                                if tq + REQUEST_TIMEOUT_MS > t + slack {
                                    return false;
                                }
                                let (cnt, total) = self.delivered.get(&(e.node, peer, qid.clone())).copied().unwrap_or((0, 1));
                                cnt < total
                            }) || (st.t_submit + REQUEST_TIMEOUT_MS <= t + slack && {
                                let (cnt, total) = self.delivered.get(&(e.node, peer, id.clone())).copied().unwrap_or((0, 1));
                                cnt < total
                            });
                            // refinement for the simplest situation: this is the ONLY request this node has
                            // towards that peer at the time, and it was (re)sent inside a handshake packet at time th (the
                            // WHOAREYOU answered the first packet, so the request proper only went out then):
                            // the time-out counts from th
                            // ("only": every other request of this node to that peer had its outcome before this one
                            // was submitted, and the handler never had an internal request to that peer)
                            let alone = !self.reqs.iter().any(|((n, qid), r)| *n == e.node && qid != id && r.to_addr == Some(peer) && r.t_terminal.map(|tt| tt >= st.t_submit).unwrap_or(true))
                                && !self.first_seen.iter().any(|((n, a, qid), (_, internal))| *n == e.node && *a == peer && qid != id && *internal);
                            if alone {
                                let th = w
                                    .log
                                    .iter()
                                    .filter(|d| d.from_node == Some(e.node) && d.to_addr == peer && matches!(d.decoded.as_ref().map(|p| &p.0.kind), Some(PacketKind::Handshake { .. })))
                                    .filter(|d| matches!(decrypt(d, &w.keys_seen[e.node]), Some((Message::Request(r), _)) if r.id == *id))
                                    .map(|d| d.t_ms)
                                    .max();
                                if let Some(th) = th {
                                    self.single_request_timeouts += 1;
                                    if t + slack < th + REQUEST_TIMEOUT_MS {
                                        return Some((
                                            "timeout/not-earned".into(),
                                            format!(
                                                "node {}: request {id} to {peer} - the only one outstanding towards that peer - went out inside a handshake packet at {th} ms and was reported Timeout at {t} ms, {} ms later (request time-out {} ms)",
                                                e.node,
                                                t.saturating_sub(th),
                                                REQUEST_TIMEOUT_MS
                                            ),
                                        ));
                                    }
                                }
                            }
                            if !earned {
                                return Some((
                                    "timeout/not-earned".into(),
                                    format!(
                                        "node {}: request {id} to {peer} (submitted at {} ms) reported Timeout at {t} ms although no request to that peer had been unanswered for a full timeout ({} ms)",
                                        e.node, st.t_submit, REQUEST_TIMEOUT_MS
                                    ),
                                ));
                            }
                        }
                    }
                }
                _ => {}
            }
        }
        // deliveries of response datagrams (for the "timeouts are earned" clause). Registered AFTER this
        // step's events were judged: a response arriving in the very step in which the timer fires races
        // with it, and either order is legitimate.
        for j in &w.injections[self.seen_inj..] {
            if let Some(idx) = j.genuine_of {
                let dg = &w.log[idx];
                if dg.from_node.is_some() {
                    if j.from_addr == dg.from_addr {
                        // "answered" = the receiver held, when the datagram arrived, a session with the
                        // sender whose decryption key (current or old) authenticates it
                        let mut dec: Vec<[u8; 16]> = Vec::new();
                        for s in w.prev_snaps[j.to_node].sessions.iter().chain(w.snaps[j.to_node].sessions.iter()) {
                            if s.addr.socket_addr == j.from_addr {
                                dec.push(s.keys.1);
                                if let Some(o) = s.old_keys {
                                    dec.push(o.1);
                                }
                            }
                        }
                        if let Some((Message::Response(r), _)) = decrypt(dg, &dec) {
                            // same rule as for the terminal outcome: the first multi-packet answer fixes how
                            // many packets are needed, a packet announcing <= 1 completes the answer
                            let e = self.delivered.entry((j.to_node, j.from_addr, r.id.clone())).or_insert((0, 1));
                            let first = e.0 == 0;
                            e.0 += 1;
                            let total = match r.body {
                                ResponseBody::Nodes { total, .. } => total.max(1),
                                _ => 1,
                            };
                            if total <= 1 {
                                e.1 = e.0;
                            } else if first {
                                e.1 = total;
                            }
                        }
                    }
                }
            }
        }
        self.seen_inj = w.injections.len();
        // overlap statistic: >= 2 unfinished requests from one node to one peer while a fault was seen
        if !self.faults.is_empty() {
            let mut per: HashMap<(usize, SocketAddr), u32> = HashMap::new();
            for st in self.reqs.values() {
                if !st.terminal {
                    if let Some(a) = st.to_addr {
                        *per.entry((st.node, a)).or_insert(0) += 1;
                    }
                }
            }
            if per.values().any(|c| *c >= 2) {
                self.overlap_with_fault = true;
            }
        }
        None
    }

    fn finish(&mut self, w: &World) -> Option<(String, String)> {
        // 2. after the drain: exactly one terminal outcome; nothing left in the handler
        for ((node, id), st) in &self.reqs {
            // requests submitted at a node before its last restart died with the old handler
            if st.after_restart_gen != w.nodes[*node].restarts {
                continue;
            }
            if !st.terminal {
                let snap = &w.snaps[*node];
                let wher = if snap.pending.iter().any(|p| &p.id == id) {
                    "still queued as pending"
                } else if snap.active.iter().any(|a| &a.id == id) {
                    "still active"
                } else {
                    "gone from the handler"
                };
                return Some((
                    format!("outcome/neither/{}", wher.replace(' ', "-")),
                    format!("node {node}: request {id} to {:?} got {} response(s) (k {:?}) and no failure after the drain; it is {wher}", st.to_addr, st.resp, st.k),
                ));
            }
        }
        for (i, s) in w.snaps.iter().enumerate() {
            let ext_active: Vec<_> = s.active.iter().filter(|a| !a.internal).collect();
            let ext_pending: Vec<_> = s.pending.iter().filter(|a| !a.internal).collect();
            if !ext_active.is_empty() || !ext_pending.is_empty() {
                return Some((
                    "outcome/requests-left-after-drain".into(),
                    format!("node {i}: after the drain {} active and {} pending external requests remain", ext_active.len(), ext_pending.len()),
                ));
            }
        }
        // 3. transmissions per session key
        let bound = 1 + w.cfg.retries as u64;
        for (i, _) in w.nodes.iter().enumerate() {
            let mut count: HashMap<(RequestId, [u8; 16]), u64> = HashMap::new();
            for dg in w.log.iter().filter(|d| d.from_node == Some(i)) {
                if let Some((Message::Request(r), k)) = decrypt(dg, &w.keys_seen[i]) {
                    *count.entry((r.id.clone(), k)).or_insert(0) += 1;
                }
            }
            for ((id, _k), c) in count {
                if c > bound {
                    return Some((
                        "transmissions/more-than-1+retries-per-key".into(),
                        format!("node {i}: request {id} was put on the wire {c} times under one session key (retries {})", w.cfg.retries),
                    ));
                }
            }
            // random packets / byte-identical retransmissions
            let mut same: HashMap<&[u8], u64> = HashMap::new();
            for dg in w.log.iter().filter(|d| d.from_node == Some(i)) {
                if matches!(dg.decoded.as_ref().map(|p| &p.0.kind), Some(PacketKind::Message { .. })) {
                    *same.entry(&dg.bytes).or_insert(0) += 1;
                }
            }
            if let Some((_, c)) = same.into_iter().find(|(_, c)| *c > bound) {
                return Some((
                    "transmissions/identical-datagram-too-often".into(),
                    format!("node {i}: one datagram was transmitted {c} times (retries {})", w.cfg.retries),
                ));
            }
        }
        None
    }

    fn report(&self, _w: &World, rep: &mut CaseReport) {
        rep.nontrivial = self.overlap_with_fault;
        for f in &self.faults {
            rep.class(format!("fault/{f}"));
        }
        if self.timeouts > 0 {
            rep.class("timeout-reported");
        }
        rep.count("responses", self.responses);
        rep.count("failures", self.failures);
        rep.count("requests", self.reqs.len() as u64);
        rep.count("events-with-handler-internal-id(not judged)", self.unknown_id_events);
    }
}

impl Property for C04 {
    type Case = Case;
    const ID: &'static str = "C04";
    fn cases(tier: Tier) -> u64 {
        tier.pick(24_000, 400_000)
    }
    fn strategy(tier: Tier) -> BoxedStrategy<Case> {
        let n = tier.pick(40usize, 120usize);
        (wire_gen::config_strategy(false), prop_oneof![3 => Just(Drain::Answering), 1 => Just(Drain::Silent)])
            .prop_flat_map(move |(cfg, drain)| {
                let np = cfg.n_peers;
                (Just(cfg), wire_gen::ops_strategy(np, wire_gen::Mix::Faulty, n), Just(drain))
            })
            .prop_map(|(cfg, ops, drain)| Case { cfg, ops, drain })
            .boxed()
    }
    fn run(case: &Case) -> CaseReport {
        let mut rep = CaseReport::default();
        let mut o = Outcomes::default();
        run_case_blocking(case.cfg.clone(), &case.ops, case.drain, &mut o, &mut rep);
        rep
    }
    fn rule() -> String {
        "schedules (<=40 quick / <=120 thorough ops) over 2..4 real handlers (request_retries 0..3, request timeout 1 s virtual): requests of all kinds submitted at any node at arbitrary points (record-less contacts included), datagrams delivered in any order / dropped / duplicated / delayed across timeouts, who-are-you queries and requests answered immediately, late or never, peers restarted, and (one fragment in 61) 52..99 requests to one peer whose datagrams are all lost, so that they all end in one go; each schedule ends with a drain (answering or silent network; time advanced by 2 x (retries+2) timeouts). Ledger per request id: at most one failure, at most k responses (k = NODES total), nothing after the terminal event; after the drain exactly one terminal outcome and no external request left in the handler; per session key a request is transmitted at most 1+retries times (datagrams decrypted with keys from probe snapshots); a Timeout is reported only if some request to that peer was outstanding for a full timeout without its answer(s) having been delivered. Non-trivial = >=2 unfinished requests from one node to one peer while a fault (drop, duplicate, restart, late answer, challenge during a live session) occurred.".into()
    }
    fn assumptions() -> Vec<String> {
        vec![
            "requests submitted at a peer before that peer's restart are not judged (their handler was dropped)".into(),
            "time stamps have a 50 ms granularity (clock advanced in slices); the timeout clause uses 120 ms of slack in the lenient direction".into(),
            "datagram <-> request mapping by authenticated decryption with the session keys seen in probe snapshots".into(),
        ]
    }
}
