//! C20 - Every TALK request is answered exactly once.

use crate::{
    engines::svc::*,
    ids, keys,
    runner::{CaseReport, Property, Tier},
};
use discv5::{
    verif::{HandlerIn, HandlerOut, Request, RequestBody, RequestId, ResponseBody},
    Event, NodeAddress, ResponseError, TalkRequest,
};
use proptest::prelude::*;
use serde::{Deserialize, Serialize};
use std::collections::HashMap;

#[derive(Clone, Debug, PartialEq, Eq, Hash, Serialize, Deserialize)]
pub enum Step {
    /// a TALKREQ arrives from peer `from` (request id derived from the step index, `idlen` bytes)
    Talk { from: u8, idlen: u8, payload: Vec<u8> },
    Respond { sel: u16, payload: Vec<u8> },
    Drop { sel: u16 },
    DropOnOtherThread { sel: u16 },
    /// stop / resume reading the event stream (lets it fill up)
    SetDraining(bool),
    /// many TALKREQs at once (to fill the event channel while not draining)
    Burst { from: u8, n: u8 },
    /// (virtual) time passes while the application holds what it holds
    Wait { ms: u32 },
    /// the application task / thread that holds a delivered request fails: the request object is
    /// dropped by the unwinding
    DropByPanic { sel: u16 },
    /// the application asks for the event stream once more and keeps reading the one(s) it had
    Resubscribe,
    /// a request the application holds arrives once more (the peer retransmitted it: same source, same
    /// id, same payload); it is delivered again, and each delivery is answered on its own
    TalkAgain { sel: u16 },
}

#[derive(Clone, Debug, PartialEq, Eq, Hash, Serialize, Deserialize)]
pub struct Case {
    pub register_events: bool,
    pub steps: Vec<Step>,
    /// what happens to the held requests after shutdown: true = respond, false = drop
    pub respond_after_shutdown: bool,
    /// bit i: source node i is a routing-table member (the service knows a record of it)
    #[serde(default)]
    pub known: u8,
    /// bit i: the requests of source node i come from another socket than its record advertises
    #[serde(default)]
    pub moved: u8,
    /// dual-stack service; known records then advertise an IPv4 and an IPv6 socket (requests arrive over IPv4)
    #[serde(default)]
    pub dual: bool,
    /// wire-engine companion (real handlers): when present, `steps` is empty
    #[serde(default)]
    pub wire: Option<WireTalk>,
}

/// `n_req` TALK requests from 1..2 peers are delivered to V's application, which holds them all and
/// then settles them in one go; every answer must hit the wire exactly once.
#[derive(Clone, Debug, PartialEq, Eq, Hash, Serialize, Deserialize)]
pub struct WireTalk {
    pub n_req: u8,
    pub two_peers: bool,
    pub newest_first: bool,
    /// the application bans the requesters (node id and IP) after the requests were delivered and
    /// before it answers them
    #[serde(default)]
    pub ban_before_answer: bool,
    /// the requesters are behind NAT: their records advertise another socket than they send from
    #[serde(default)]
    pub nat: bool,
    /// between the delivery of the requests and their answers: 1 = the first requester (same node id,
    /// its own key) completes a handshake with V from a SECOND endpoint; 2 = the first requester sends
    /// a message under its session that does not decode (another protocol revision); 0 = nothing
    #[serde(default)]
    pub interlude: u8,
    /// V's session cache holds two sessions: peers 1 and 2 connect first, peer 1 then sends the TALK
    /// requests (the most recent use of any session), and while they are held a third peer connects -
    /// the session that has to go is peer 2's
    #[serde(default)]
    pub crowded: bool,
    /// the session with the first requester was re-keyed before the requests arrive (the peer restarted
    /// and challenged a request of V's): V still remembers the previous keys
    #[serde(default)]
    pub rekeyed: bool,
    /// while the requests are held a request of V's own to the first requester is lost and times out
    #[serde(default)]
    pub own_request_times_out: bool,
}

async fn run_wire(wt: &WireTalk, rep: &mut CaseReport) -> Option<(String, String)> {
    use crate::engines::wire::{AppMode, Body, Know, Op, WireConfig, World};
    use crate::engines::wire_interp::act;
    use discv5::verif::Message;
    reset_globals();
    let np = if wt.crowded { 3 } else if wt.two_peers { 2 } else { 1 };
    let mut resp_mode = vec![AppMode::Immediate; 4];
    resp_mode[0] = AppMode::Manual;
    let cfg = WireConfig {
        n_peers: np,
        retries: 1,
        filter: false,
        wru_mode: vec![AppMode::Immediate; 4],
        wru_know: vec![Know::Current; 4],
        resp_mode,
        nodes_packets: 1,
        seqs: vec![1; 4],
        nat_peers: if wt.nat { vec![1, 2] } else { vec![] },
        nat_kind: wt.n_req % 4,
        dual_records: false,
        foreign_enr_answer: vec![],
        v_session_timeout_ms: None,
        v_session_capacity: if wt.crowded { Some(2) } else { None },
        v_dual_listen: false,
    };
    let mut w = World::new(cfg).await;
    if wt.nat {
        rep.class("wire-companion/requesters-behind-nat");
    }
    async fn deliver_all(w: &mut World) {
        let mut guard = 0;
        while !w.pool.is_empty() && guard < 2000 {
            guard += 1;
            let idx = w.pool.remove(0);
            w.deliver_logged(idx);
            w.settle().await;
            w.step += 1;
        }
    }
    let n = wt.n_req.max(1) as usize;
    if wt.crowded {
        for peer in [1u8, 2] {
            act(&mut w, &Op::Submit { from: peer, to: 0, body: Body::Ping, with_record: true });
            w.settle().await;
            w.step += 1;
            deliver_all(&mut w).await;
        }
        rep.class("wire-companion/session-cache-of-two-with-three-peers");
    }
    if wt.rekeyed && !wt.crowded {
        act(&mut w, &Op::Submit { from: 1, to: 0, body: Body::Ping, with_record: true });
        w.settle().await;
        w.step += 1;
        deliver_all(&mut w).await;
        w.restart(1).await;
        w.settle().await;
        w.step += 1;
        // V talks to the restarted peer first: the peer challenges V, whose session is re-keyed in place
        act(&mut w, &Op::Submit { from: 0, to: 1, body: Body::Ping, with_record: true });
        w.settle().await;
        w.step += 1;
        deliver_all(&mut w).await;
        rep.class("wire-companion/requester-restarted-and-challenged-V(session re-keyed in place)");
    }
    let talkers = if wt.crowded { 1 } else { np as usize };
    for j in 0..n {
        // (every other request has a one-byte payload >= 0x80 - the answer echoes it - e.g. a status code)
        let n_body = if j % 2 == 1 { 133u8.wrapping_add(((j as u8) % 17).wrapping_mul(7)) } else { j as u8 };
        act(&mut w, &Op::Submit { from: 1 + (j % talkers) as u8, to: 0, body: Body::Talk(n_body), with_record: true });
        w.settle().await;
        w.step += 1;
        deliver_all(&mut w).await;
    }
    let mut held = std::mem::take(&mut w.nodes[0].held_req);
    if wt.newest_first {
        held.reverse();
    }
    let talks: Vec<_> = held.iter().filter(|(_, r)| matches!(r.body, RequestBody::Talk { .. })).cloned().collect();
    rep.class("wire-companion");
    rep.count("wire_talk_requests_held_then_settled_at_once", talks.len() as u64);
    if talks.len() > 30 {
        rep.class("wire-companion/more-than-30-answers-in-one-go");
        rep.nontrivial = true;
    }
    let log0 = w.log.len();
    if wt.ban_before_answer {
        let mut l = discv5::verif::PERMIT_BAN_LIST.write();
        for (addr, _) in &held {
            l.ban_nodes.insert(addr.node_id, None);
            l.ban_ips.insert(addr.socket_addr.ip(), None);
        }
        rep.class("wire-companion/requesters-banned-before-the-answer");
    }
    if wt.crowded {
        act(&mut w, &Op::Submit { from: 3, to: 0, body: Body::Ping, with_record: true });
        w.settle().await;
        w.step += 1;
        deliver_all(&mut w).await;
        held.extend(std::mem::take(&mut w.nodes[0].held_req));
    }
    if wt.own_request_times_out {
        act(&mut w, &Op::Submit { from: 0, to: 1, body: Body::Ping, with_record: true });
        w.settle().await;
        w.step += 1;
        w.pool.clear();
        crate::engines::wire_interp::advance(&mut w, std::time::Duration::from_millis(crate::engines::wire::REQUEST_TIMEOUT_MS * 5 / 2)).await;
        w.pool.clear();
        rep.class("wire-companion/own-request-to-the-requester-timed-out-in-between");
    }
    // (a crowded cache has no room for the extra session of interlude 1: that would evict the
    // requester's session by the LRU rule itself, and an answer needs that session)
    match if wt.crowded { 0 } else { wt.interlude % 3 } {
        1 => {
            use crate::engines::wire::{AttachedRecord, EphKey, ForgedBody, Signer, XSel};
            act(&mut w, &Op::Probe { x: XSel::Peer(0), z: 0 });
            w.settle().await;
            w.step += 1;
            let ok = act(&mut w, &Op::ForgedHandshake { x: XSel::Peer(0), z: 0, signer: Signer::Genuine, eph: EphKey::Valid, rec: AttachedRecord::Genuine, body: ForgedBody::Ping, spoof: false });
            w.settle().await;
            w.step += 1;
            w.pool.clear();
            let second = crate::engines::wire::attacker_addr(0);
            if ok && w.snaps[0].sessions.iter().any(|s| s.addr.socket_addr == second && s.addr.node_id.raw() == w.nodes[1].id) {
                rep.class("wire-companion/requester-established-a-session-from-a-second-endpoint-in-between");
                rep.nontrivial = true;
            }
        }
        2 => {
            if act(&mut w, &Op::UndecodableMessage { peer: 0, to: 0, variant: wt.n_req }) {
                rep.class("wire-companion/undecodable-message-of-the-requester-in-between");
                rep.nontrivial = true;
            }
            w.settle().await;
            w.step += 1;
            w.pool.clear();
        }
        _ => {}
    }
    for (addr, req) in held {
        w.respond(0, addr, req, 1);
    }
    w.settle().await;
    w.step += 1;
    // count the TALKRESPs V put on the wire, per (destination, request id)
    let mut sent: HashMap<(std::net::SocketAddr, RequestId), usize> = HashMap::new();
    for d in &w.log[log0..] {
        if d.from_node != Some(0) {
            continue;
        }
        if let Some((Message::Response(r), _)) = crate::props::c04::decrypt(d, &w.keys_seen[0]) {
            if matches!(r.body, ResponseBody::Talk { .. }) {
                *sent.entry((d.to_addr, r.id.clone())).or_insert(0) += 1;
            }
        }
    }
    // what the peers asked, with the request ids as THEY chose them (byte for byte)
    let asked: Vec<(std::net::SocketAddr, RequestId)> = w
        .submitted
        .iter()
        .filter(|s| s.from != 0 && matches!(s.body, RequestBody::Talk { .. }))
        .map(|s| (w.nodes[s.from].addr, s.id.clone()))
        .collect();
    if asked.iter().any(|(_, id)| id.0.len() > 1 && id.0[0] == 0) {
        rep.class("wire-companion/request-id-with-leading-zero-bytes");
    }
    for (addr, id) in &asked {
        if talks.iter().any(|(a, r)| a.socket_addr == *addr && r.id.0.iter().skip_while(|b| **b == 0).eq(id.0.iter().skip_while(|b| **b == 0))) && sent.get(&(*addr, id.clone())).copied().unwrap_or(0) != 1 {
            let c = sent.get(&(*addr, id.clone())).copied().unwrap_or(0);
            return Some((
                if c == 0 { "talk/no-answer-with-the-request's-id".to_string() } else { "talk/answered-more-than-once".to_string() },
                format!("peer {addr} sent a TALK request with id {} ({} bytes); {c} TALKRESP(s) with exactly that id went onto the wire", id, id.0.len()),
            ));
        }
    }
    for (addr, req) in &talks {
        let c = sent.get(&(addr.socket_addr, req.id.clone())).copied().unwrap_or(0);
        if c != 1 {
            return Some((
                if c == 0 { "talk/answer-never-sent".to_string() } else { "talk/answered-more-than-once".to_string() },
                format!("V's application answered {} held TALK requests in one go; the answer to request {} from {} went onto the wire {c} times", talks.len(), req.id, addr.socket_addr),
            ));
        }
    }
    *discv5::verif::PERMIT_BAN_LIST.write() = Default::default();
    deliver_all(&mut w).await;
    if let Some(p) = crate::runner::take_panic() {
        return Some((format!("panic-in-task/{}", p.split(':').take(2).collect::<Vec<_>>().join(":")), p));
    }
    None
}

pub struct C20;

#[derive(Debug)]
enum Fate {
    Held,
    Responded(Vec<u8>),
    Dropped,
    /// never reached the application (no stream registered / stream full)
    Undeliverable,
}

async fn run(case: &Case, rep: &mut CaseReport) -> Option<(String, String)> {
    reset_globals();
    let mut s = Svc::new(SvcConfig { key_idx: 0, register_events: case.register_events, mode: if case.dual { Mode::Dual } else { Mode::Ip4 }, ..Default::default() }).await;
    for i in 0..4u8 {
        if case.known & (1 << i) != 0 {
            let k = 700 + i as u32;
            let rec = shaped_record(k, 1, if case.dual { Shape::Both } else { Shape::V4 });
            s.inject(HandlerOut::Established(rec, svc_addr4(k), discv5::verif::ConnectionDirection::Outgoing)).await;
        }
    }
    s.take_outbox();
    s.take_events();
    let (known, moved) = (case.known, case.moved);
    let mut fates: HashMap<(NodeAddress, RequestId), Fate> = HashMap::new();
    // second delivery of a request (retransmission): at most one per request
    let mut twins: HashMap<(NodeAddress, RequestId), Fate> = HashMap::new();
    let mut payloads: HashMap<(NodeAddress, RequestId), Vec<u8>> = HashMap::new();
    let mut held: Vec<TalkRequest> = Vec::new();
    let mut answers: HashMap<(NodeAddress, RequestId), Vec<Vec<u8>>> = HashMap::new();
    let mut counter: u64 = 0;
    let mut concurrent_different = false;

    // collect answers emitted so far, and newly delivered request objects
    macro_rules! collect {
        () => {{
            for m in s.take_outbox() {
                if let HandlerIn::Response(a, r) = m {
                    if let ResponseBody::Talk { response } = &r.body {
                        answers.entry((a.clone(), r.id.clone())).or_default().push(response.clone());
                    }
                }
            }
            for e in s.take_events() {
                if let Event::TalkRequest(t) = e {
                    held.push(t);
                }
            }
        }};
    }
    // invariant: answers match fates
    macro_rules! check {
        ($when:expr) => {{
            for (k, f) in &fates {
                let got = answers.get(k).cloned().unwrap_or_default();
                if let Some(tw) = twins.get(k) {
                    // delivered twice: one answer per delivery that is no longer held, nothing else
                    let mut want: Vec<Vec<u8>> = [f, tw].iter().filter_map(|x| match x { Fate::Held => None, Fate::Responded(p) => Some(p.clone()), _ => Some(vec![]) }).collect();
                    let mut have = got.clone();
                    want.sort();
                    have.sort();
                    if want != have {
                        return Some((
                            if have.len() > want.len() { "talk/answered-while-held".to_string() } else { "talk/no-answer/after-respond".to_string() },
                            format!("request {} from {} was delivered twice (a retransmission); deliveries settled so far call for the answers {:?}, the node sent {:?} ({})", k.1, k.0, want, have, $when),
                        ));
                    }
                    continue;
                }
                let want: Option<Vec<u8>> = match f {
                    Fate::Held => None,
                    Fate::Responded(p) => Some(p.clone()),
                    Fate::Dropped | Fate::Undeliverable => Some(vec![]),
                };
                match (&want, got.len()) {
                    (None, 0) => {}
                    (None, n) => {
                        return Some(("talk/answered-while-held".into(), format!("{} answer(s) for request {} although the application still holds it ({})", n, k.1, $when)));
                    }
                    (Some(_), 0) => {
                        return Some((
                            format!("talk/no-answer/{}", match f { Fate::Responded(_) => "after-respond", Fate::Dropped => "after-drop", _ => "undeliverable" }),
                            format!("request {} from {} got no TALKRESP ({:?}, {})", k.1, k.0, f, $when),
                        ));
                    }
                    (Some(w), 1) => {
                        if &got[0] != w {
                            return Some(("talk/wrong-payload".into(), format!("request {}: answered {:?}, expected {:?}", k.1, got[0], w)));
                        }
                    }
                    (Some(_), n) => {
                        return Some(("talk/answered-more-than-once".into(), format!("request {} from {} got {} TALKRESPs ({:?})", k.1, k.0, n, f)));
                    }
                }
            }
            for k in answers.keys() {
                if !fates.contains_key(k) {
                    return Some(("talk/answer-for-unknown-request".into(), format!("TALKRESP for {} to {} which was never requested", k.1, k.0)));
                }
            }
        }};
    }

    let inject = |s: &mut Svc, from: u8, idlen: u8, payload: Vec<u8>, counter: &mut u64| {
        *counter += 1;
        let be = counter.to_be_bytes();
        let l = (idlen as usize).clamp(2, 8);
        let id = RequestId(be[8 - l..].to_vec());
        let k = 700 + (from % 4) as u32;
        let src = if moved & (1 << (from % 4)) != 0 {
            std::net::SocketAddr::new(std::net::IpAddr::V4(std::net::Ipv4Addr::new(10, 77, 0, 1 + from % 4)), 6000 + (from % 4) as u16)
        } else {
            svc_addr4(k)
        };
        let addr = NodeAddress::new(src, ids::node_id(&keys::id_of(k)));
        let req = Request { id: id.clone(), body: RequestBody::Talk { protocol: b"p".to_vec(), request: payload } };
        let _ = s.h.to_service.try_send(HandlerOut::Request(addr.clone(), Box::new(req)));
        (addr, id)
    };

    let mut pending_in_channel: usize = 0; // events sitting in the (undrained) event channel
    let mut registered = case.register_events;
    let mut resubscribed = 0;
    for step in &case.steps {
        match step {
            Step::SetDraining(b) => {
                s.drain_events = *b;
                if *b {
                    pending_in_channel = 0;
                }
            }
            Step::Talk { from, idlen, payload } => {
                let k = inject(&mut s, *from, *idlen, payload.clone(), &mut counter);
                payloads.insert(k.clone(), payload.clone());
                s.settle().await;
                let deliverable = registered && (s.drain_events || pending_in_channel < 100);
                if registered && !s.drain_events {
                    pending_in_channel += 1;
                }
                fates.insert(k, if deliverable { Fate::Held } else { Fate::Undeliverable });
            }
            Step::Resubscribe => {
                if resubscribed < 3 {
                    resubscribed += 1;
                    s.resubscribe().await;
                    registered = true;
                    // the new stream is empty; what sat in the old one is still read from there
                    pending_in_channel = 0;
                    rep.class("event-stream-requested-again");
                }
            }
            Step::Wait { ms } => {
                tokio::time::sleep(std::time::Duration::from_millis(*ms as u64)).await;
                if *ms >= 1000 && fates.values().any(|f| matches!(f, Fate::Held)) {
                    rep.class("request-held-across->=1s-of-virtual-time");
                }
            }
            Step::Burst { from, n } => {
                for _ in 0..*n {
                    let k = inject(&mut s, *from, 8, vec![1], &mut counter);
                    s.settle().await;
                    let deliverable = registered && (s.drain_events || pending_in_channel < 100);
                    if registered && !s.drain_events {
                        pending_in_channel += 1;
                    }
                    if !deliverable {
                        rep.class("event-stream-full-or-absent");
                    }
                    fates.insert(k, if deliverable { Fate::Held } else { Fate::Undeliverable });
                }
            }
            Step::TalkAgain { sel } => {
                collect!();
                let cands: Vec<(NodeAddress, RequestId)> = fates.iter().filter(|(k, f)| matches!(f, Fate::Held) && !twins.contains_key(*k) && payloads.contains_key(*k) && held.iter().any(|t| t.node_id() == &k.0.node_id && t.id() == &k.1)).map(|(k, _)| k.clone()).collect();
                if cands.is_empty() || !s.drain_events || !registered {
                    continue;
                }
                let mut cands = cands;
                cands.sort_by(|a, b| a.1 .0.cmp(&b.1 .0));
                let k = cands[(*sel as usize * cands.len()) >> 16].clone();
                let req = Request { id: k.1.clone(), body: RequestBody::Talk { protocol: b"p".to_vec(), request: payloads[&k].clone() } };
                let _ = s.h.to_service.try_send(HandlerOut::Request(k.0.clone(), Box::new(req)));
                s.settle().await;
                twins.insert(k, Fate::Held);
                rep.class("held-request-arrives-again(retransmission)");
            }
            Step::Respond { sel, payload } => {
                collect!();
                if !held.is_empty() {
                    let t = held.remove((*sel as usize * held.len()) >> 16);
                    let k = (NodeAddress::new(svc_addr4(0), *t.node_id()), t.id().clone());
                    let key = fates.keys().find(|(a, i)| a.node_id == k.0.node_id && *i == k.1).cloned();
                    let r = t.respond(payload.clone());
                    if r.is_err() {
                        return Some(("talk/respond-failed-while-running".into(), format!("respond() returned {r:?} while the service is running")));
                    }
                    if let Some(key) = key {
                        if !matches!(fates.get(&key), Some(Fate::Held)) && matches!(twins.get(&key), Some(Fate::Held)) {
                            twins.insert(key, Fate::Responded(payload.clone()));
                        } else {
                            fates.insert(key, Fate::Responded(payload.clone()));
                        }
                    }
                }
            }
            Step::Drop { sel } | Step::DropOnOtherThread { sel } | Step::DropByPanic { sel } => {
                collect!();
                if !held.is_empty() {
                    let t = held.remove((*sel as usize * held.len()) >> 16);
                    let key = fates.keys().find(|(a, i)| a.node_id == *t.node_id() && i == t.id()).cloned();
                    if matches!(step, Step::DropByPanic { .. }) {
                        // resume_unwind unwinds like a panic (std::thread::panicking() is true while
                        // the request is dropped) without going through the process-wide panic hook
                        let h = std::thread::spawn(move || {
                            let _held = t;
                            std::panic::resume_unwind(Box::new("the application's protocol handler failed"));
                        });
                        let _ = h.join();
                        rep.class("dropped-by-an-unwinding-application-thread");
                    } else if matches!(step, Step::DropOnOtherThread { .. }) {
                        let h = std::thread::spawn(move || drop(t));
                        if h.join().is_err() {
                            return Some(("talk/drop-panicked".into(), "dropping a TalkRequest on another thread panicked".into()));
                        }
                        rep.class("dropped-on-another-thread");
                    } else {
                        drop(t);
                    }
                    if let Some(key) = key {
                        if !matches!(fates.get(&key), Some(Fate::Held)) && matches!(twins.get(&key), Some(Fate::Held)) {
                            twins.insert(key, Fate::Dropped);
                        } else {
                            fates.insert(key, Fate::Dropped);
                        }
                    }
                }
            }
        }
        s.settle().await;
        collect!();
        // requests that reached the application while draining are held now; those sitting in the
        // undrained channel are "held" too (not answered yet)
        check!("after a step");
        let kinds: Vec<u8> = fates.values().map(|f| match f { Fate::Held => 0, Fate::Responded(_) => 1, Fate::Dropped => 2, Fate::Undeliverable => 3 }).collect();
        if kinds.len() >= 2 && kinds.iter().any(|k| *k != kinds[0]) {
            concurrent_different = true;
        }
        if let Some(p) = crate::runner::take_panic() {
            return Some((format!("panic-in-task/{}", p.split(':').take(2).collect::<Vec<_>>().join(":")), p));
        }
    }
    // ---- shutdown: service exits, the scripted handler end is closed
    s.drain_events = true;
    s.settle().await;
    collect!();
    let released_after_shutdown = !held.is_empty();
    s.d.shutdown();
    s.settle().await;
    collect!();
    s.h.from_service.close();
    for t in held.drain(..) {
        if case.respond_after_shutdown {
            let r = std::panic::catch_unwind(std::panic::AssertUnwindSafe(|| t.respond(vec![9])));
            match r {
                Err(_) => return Some(("talk/respond-after-shutdown-panicked".into(), "respond() after shutdown panicked".into())),
                Ok(Ok(())) => return Some(("talk/respond-after-shutdown-ok".into(), "respond() after shutdown returned Ok although the channel is closed".into())),
                Ok(Err(ResponseError::ChannelClosed)) => {}
                #[allow(unreachable_patterns)]
                Ok(Err(_)) => {}
            }
        } else if std::panic::catch_unwind(std::panic::AssertUnwindSafe(|| drop(t))).is_err() {
            return Some(("talk/drop-after-shutdown-panicked".into(), "dropping a TalkRequest after shutdown panicked".into()));
        }
    }
    let _ = crate::runner::take_panic();
    rep.nontrivial = concurrent_different || released_after_shutdown;
    if released_after_shutdown {
        rep.class("released-after-shutdown");
    }
    rep.count("talk-requests", fates.len() as u64);
    if fates.keys().any(|(a, _)| (0..4u8).any(|i| known & (1 << i) != 0 && a.node_id == ids::node_id(&keys::id_of(700 + i as u32)) && (case.dual || a.socket_addr != svc_addr4(700 + i as u32)))) {
        rep.class("request-from-known-node-whose-record-suggests-another-socket");
    }
    None
}

impl Property for C20 {
    type Case = Case;
    const ID: &'static str = "C20";
    fn cases(tier: Tier) -> u64 {
        tier.pick(100_000, 1_000_000)
    }
    fn strategy(_tier: Tier) -> BoxedStrategy<Case> {
        // small payloads, and ones right below the largest that fits a 1280-byte datagram
        let payload = || prop_oneof![10 => proptest::collection::vec(any::<u8>(), 0..6), 1 => (1150usize..=1177).prop_map(|n| vec![0xABu8; n])];
        let step = prop_oneof![
            8 => (0u8..4, 0u8..=8, payload()).prop_map(|(from, idlen, payload)| Step::Talk { from, idlen, payload }),
            5 => (any::<u16>(), payload()).prop_map(|(sel, payload)| Step::Respond { sel, payload }),
            4 => any::<u16>().prop_map(|sel| Step::Drop { sel }),
            1 => any::<u16>().prop_map(|sel| Step::DropOnOtherThread { sel }),
            1 => any::<u16>().prop_map(|sel| Step::DropByPanic { sel }),
            1 => any::<bool>().prop_map(Step::SetDraining),
            1 => Just(Step::Resubscribe),
            2 => any::<u16>().prop_map(|sel| Step::TalkAgain { sel }),
            1 => (0u8..4, prop_oneof![Just(5u8), Just(110u8)]).prop_map(|(from, n)| Step::Burst { from, n }),
            2 => prop_oneof![1u32..200, 200u32..3000, 3000u32..20000, Just(60_000u32)].prop_map(|ms| Step::Wait { ms }),
        ];
        let step_cases = (prop_oneof![5 => Just(true), 1 => Just(false)], proptest::collection::vec(step, 1..20), any::<bool>(), 0u8..16, 0u8..16, prop_oneof![3 => Just(false), 1 => Just(true)])
            .prop_map(|(register_events, steps, respond_after_shutdown, known, moved, dual)| Case { register_events, steps, respond_after_shutdown, known, moved, dual, wire: None });
        let svc = step_cases;
        let companion = (prop_oneof![2 => 1u8..31, 3 => 31u8..=90], any::<bool>(), any::<bool>(), prop_oneof![2 => Just(false), 1 => Just(true)], prop_oneof![2 => Just(false), 1 => Just(true)], prop_oneof![2 => Just(0u8), 1 => Just(1u8), 1 => Just(2u8)], prop_oneof![3 => Just(false), 1 => Just(true)], prop_oneof![3 => Just(false), 1 => Just(true)], prop_oneof![3 => Just(false), 1 => Just(true)]).prop_map(|(n_req, two_peers, newest_first, ban_before_answer, nat, interlude, crowded, rekeyed, own_request_times_out)| Case {
            register_events: true,
            steps: vec![],
            respond_after_shutdown: false,
            known: 0,
            moved: 0,
            dual: false,
            wire: Some(WireTalk { n_req, two_peers, newest_first, ban_before_answer, nat: nat && !crowded, interlude: if crowded { 0 } else { interlude }, crowded, rekeyed: rekeyed && !nat, own_request_times_out }),
        });
        prop_oneof![150 => svc, 1 => companion].boxed()
    }
    fn run(case: &Case) -> CaseReport {
        let mut rep = CaseReport::default();
        if let Some(wt) = &case.wire {
            if let Some((s, d)) = run_blocking(run_wire(wt, &mut rep)) {
                rep.fail(s, d);
            }
            return rep;
        }
        let v = run_blocking(run(case, &mut rep));
        if let Some((s, d)) = v {
            rep.fail(s, d);
        }
        rep
    }
    fn rule() -> String {
        "a real Discv5 service with a scripted handler; scripts of 1..19 steps: TALKREQs (ids of 2..8 bytes, 4 source nodes) (each source node known to the service as a routing-table member or not; its requests coming from the socket its record advertises or from another one; IPv4 or dual-stack service with records advertising both families) injected while an event stream is registered / not registered / not being read so that it fills up (bursts of 110), the application responding to, dropping, dropping on another thread, dropping through the unwinding of a failing thread, asking for the event stream again (Discv5::event_stream called a second / third time while the earlier streams are still read), or holding the delivered request objects in any order, also across 1 ms .. 60 s of (virtual) time; finally shutdown (service exit, handler end closed) followed by respond / drop of everything still held. After every step: a request that was responded to has exactly one TALKRESP with that payload to its source node address, a dropped or undeliverable one exactly one empty TALKRESP, a held one none, and no TALKRESP exists for anything else; after shutdown respond returns ChannelClosed and drop does not panic. Non-trivial = >=2 requests with different fates at the same time, or a release after shutdown.".into()
    }
    fn assumptions() -> Vec<String> {
        vec!["request ids are unique per source within a script (the ledger is keyed by (node address, id))".into()]
    }
}
