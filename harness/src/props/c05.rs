//! C05 - Packet wire codec is exact, total and strict.
//! Oracles: round-trip law, byte equality with a reference encoder written from the wire spec,
//! differential against the reference decoder (with the statement's must-reject list), totality.

use crate::{
    ids::Id,
    keys,
    refmodel::packet::{self as rp, PErr, RKind, RPacket},
    runner::{CaseReport, Property, Tier},
};
use discv5::{
    packet::{PacketKind, ProtocolIdentity},
    verif::{packet_decode, packet_encode, VPacket},
};
use proptest::prelude::*;
use serde::{Deserialize, Serialize};

#[derive(Clone, Copy, Debug, PartialEq, Eq, Hash, Serialize, Deserialize)]
pub struct RecSel {
    pub key: u16,
    pub seq: u8,
    /// target size of the record (clamped to 300)
    pub size: u16,
}

#[derive(Clone, Debug, PartialEq, Eq, Hash, Serialize, Deserialize)]
pub enum SKind {
    Message { #[serde(with = "crate::ids::hex32")] src: Id },
    WhoAreYou { id_nonce: [u8; 16], enr_seq: u64 },
    Handshake { #[serde(with = "crate::ids::hex32")] src: Id, sig_len: u8, key_len: u8, record: Option<RecSel> },
}

#[derive(Clone, Copy, Debug, PartialEq, Eq, Hash, Serialize, Deserialize)]
pub enum BodyLen {
    Exact(u16),
    /// total datagram length = 1280 + delta (delta in -3..=3): exactly filling / overflowing
    TotalRelativeToMax(i8),
}

#[derive(Clone, Debug, PartialEq, Eq, Hash, Serialize, Deserialize)]
pub struct SP {
    #[serde(with = "crate::ids::hex32")]
    pub dst: Id,
    #[serde(with = "crate::ids::hex32")]
    pub other_dst: Id,
    pub iv: [u8; 16],
    pub nonce: [u8; 12],
    pub identity: Option<([u8; 6], [u8; 2])>,
    pub kind: SKind,
    pub body: BodyLen,
    pub seed: u64,
}

#[derive(Clone, Debug, PartialEq, Eq, Hash, Serialize, Deserialize)]
pub enum Mut {
    ProtocolIdByte(u8, u8),
    Version(u16),
    Flag(u8),
    AuthSizeDelta(i16),
    AuthSizeAbs(u16),
    SigSizeByte(u8),
    KeySizeByte(u8),
    /// truncate the final datagram to this many bytes
    TruncateTo(u16),
    /// append bytes to the datagram
    Extend(u16),
    /// append bytes at the end of the auth-data (declared size grows accordingly)
    AppendInAuth(u8),
    /// xor a byte of the auth-data (offset selector, mask)
    CorruptAuth(u16, u8),
    /// give a WHOAREYOU a body / change the body length
    BodyLen(u16),
    /// mask for another destination id
    RemaskOther,
}

#[derive(Clone, Debug, PartialEq, Eq, Hash, Serialize, Deserialize)]
pub struct RawP {
    pub base: SP,
    pub muts: Vec<Mut>,
}

#[derive(Clone, Debug, PartialEq, Eq, Hash, Serialize, Deserialize)]
pub enum Case {
    Structured(SP),
    Raw(RawP),
    Bytes { #[serde(with = "crate::ids::hex32")] local: Id, len: u16, seed: u64, #[serde(with = "crate::ids::hexvec")] prefix: Vec<u8> },
    /// fuzz-target form: the bytes after the IV are given UNMASKED (static header, auth-data, body);
    /// the harness masks the header part (23 + declared auth-data size bytes) for `dst` and judges
    Unmasked { #[serde(with = "crate::ids::hex32")] dst: Id, iv: [u8; 16], #[serde(with = "crate::ids::hexvec")] rest: Vec<u8> },
    /// receive-path companion: well-formed ordinary message datagrams of the given total sizes
    /// (71..=1280 legal, above that oversize) from distinct unknown sources are put on the virtual
    /// socket of a real handler; every legal one must come out of the receive path (seen as the
    /// handler's who-are-you query for that source)
    Wire { sizes: Vec<u16>, seed: u64 },
}

pub struct C05;

fn stream(seed: u64, n: usize) -> Vec<u8> {
    let mut x = seed ^ 0xA5A5_5A5A_DEAD_BEEF;
    let mut out = Vec::with_capacity(n + 8);
    while out.len() < n {
        x = x.wrapping_add(0x9E3779B97F4A7C15);
        let mut z = x;
        z = (z ^ (z >> 30)).wrapping_mul(0xBF58476D1CE4E5B9);
        z = (z ^ (z >> 27)).wrapping_mul(0x94D049BB133111EB);
        z ^= z >> 31;
        out.extend_from_slice(&z.to_le_bytes());
    }
    out.truncate(n);
    out
}

fn identity(sp: &SP) -> ProtocolIdentity {
    match sp.identity {
        None => ProtocolIdentity::default(),
        Some((protocol_id, protocol_version)) => ProtocolIdentity { protocol_id, protocol_version },
    }
}

fn record_bytes(e: &discv5::Enr) -> Vec<u8> {
    alloy_rlp::encode(e)
}

/// Builds (crate packet, reference packet) for a structured spec.
fn build(sp: &SP) -> (VPacket, RPacket) {
    let ident = identity(sp);
    let (kind, rkind) = match &sp.kind {
        SKind::Message { src } => (
            PacketKind::Message { src_id: crate::ids::node_id(src) },
            RKind::Message { src_id: *src },
        ),
        SKind::WhoAreYou { id_nonce, enr_seq } => (
            PacketKind::WhoAreYou { id_nonce: *id_nonce, enr_seq: *enr_seq },
            RKind::WhoAreYou { id_nonce: *id_nonce, enr_seq: *enr_seq },
        ),
        SKind::Handshake { src, sig_len, key_len, record } => {
            let sig = stream(sp.seed ^ 1, *sig_len as usize);
            let key = stream(sp.seed ^ 2, *key_len as usize);
            let rec = record.map(|r| keys::padded_record(r.key as u32 % 64, r.seq.max(1), r.size));
            (
                PacketKind::Handshake {
                    src_id: crate::ids::node_id(src),
                    id_nonce_sig: sig.clone(),
                    ephem_pubkey: key.clone(),
                    enr_record: rec.clone(),
                },
                RKind::Handshake { src_id: *src, sig, key, record: rec.as_ref().map(record_bytes) },
            )
        }
    };
    let header_len = 16 + 23 + rp::authdata(&rkind).len();
    let body_len = match sp.body {
        BodyLen::Exact(n) => n as usize,
        BodyLen::TotalRelativeToMax(d) => (1280i64 + d as i64 - header_len as i64).max(0) as usize,
    };
    let body_len = if matches!(sp.kind, SKind::WhoAreYou { .. }) { 0 } else { body_len };
    let message = stream(sp.seed ^ 3, body_len);
    let v = VPacket {
        iv: u128::from_be_bytes(sp.iv),
        message_nonce: sp.nonce,
        protocol_identity: ident,
        kind,
        message: message.clone(),
    };
    let r = RPacket {
        iv: sp.iv,
        protocol_id: ident.protocol_id,
        version: ident.protocol_version,
        nonce: sp.nonce,
        kind: rkind,
        message,
    };
    (v, r)
}

fn to_ref(v: &VPacket) -> RPacket {
    RPacket {
        iv: v.iv.to_be_bytes(),
        protocol_id: v.protocol_identity.protocol_id,
        version: v.protocol_identity.protocol_version,
        nonce: v.message_nonce,
        kind: match &v.kind {
            PacketKind::Message { src_id } => RKind::Message { src_id: src_id.raw() },
            PacketKind::WhoAreYou { id_nonce, enr_seq } => RKind::WhoAreYou { id_nonce: *id_nonce, enr_seq: *enr_seq },
            PacketKind::Handshake { src_id, id_nonce_sig, ephem_pubkey, enr_record } => RKind::Handshake {
                src_id: src_id.raw(),
                sig: id_nonce_sig.clone(),
                key: ephem_pubkey.clone(),
                record: enr_record.as_ref().map(record_bytes),
            },
        },
        message: v.message.clone(),
    }
}

/// CTR counter-width exclusion: the spec does not state the counter width; the crate uses a
/// 64-bit big-endian counter, the reference a 128-bit one. They differ only if the low 64 bits of
/// the IV wrap within one datagram (<= 80 blocks). Such IVs are excluded by construction.
fn iv_wraps(iv: &[u8; 16]) -> bool {
    let low = u64::from_be_bytes(iv[8..16].try_into().unwrap());
    low > u64::MAX - 128
}

fn run_structured(sp: &SP, rep: &mut CaseReport) {
    if iv_wraps(&sp.iv) {
        // comparison with the reference layout is excluded (counter width unspecified), but the
        // crate's own encode/decode must still agree with each other for such IVs
        rep.exclude("iv-low64-wraps: comparison with the reference layout (ctr counter width unspecified)", 1);
        let ident = identity(sp);
        let (v, _r) = build(sp);
        let dst = crate::ids::node_id(&sp.dst);
        let enc = packet_encode(v.clone(), &dst);
        if enc.len() >= 63 && enc.len() <= 1280 {
            match packet_decode(&dst, ident, &enc) {
                Err(e) => rep.fail("packet/roundtrip-rejected", format!("decode(encode(p)) failed with {e} for an IV whose low 64 bits wrap ({:?})", sp.kind)),
                Ok((p2, aad)) => {
                    if p2 != v {
                        rep.fail("packet/roundtrip-different-packet", format!("decode(encode(p)) != p for an IV whose low 64 bits wrap ({:?})", sp.kind));
                    } else if aad != discv5::verif::packet_authenticated_data(&v) {
                        rep.fail("packet/roundtrip-different-aad", "authenticated data differs for an IV whose low 64 bits wrap".to_string());
                    }
                }
            }
            rep.class("structured-iv-at-counter-wrap(roundtrip only)");
            rep.nontrivial = true;
        }
        return;
    }
    let ident = identity(sp);
    let (v, r) = build(sp);
    let dst = crate::ids::node_id(&sp.dst);
    let enc = packet_encode(v.clone(), &dst);
    let (renc, raad) = rp::encode(&r, &sp.dst);
    if enc != renc {
        let at = enc.iter().zip(renc.iter()).position(|(a, b)| a != b).unwrap_or(enc.len().min(renc.len()));
        rep.fail(
            "packet/encoding-differs-from-spec-layout",
            format!("encode() differs from the reference encoder at byte {at} (len {} vs {}) for {:?}", enc.len(), renc.len(), sp.kind),
        );
        return;
    }
    let is_hs = matches!(sp.kind, SKind::Handshake { .. });
    if is_hs {
        rep.class("structured-handshake");
        if let SKind::Handshake { record: Some(_), .. } = sp.kind {
            rep.class("structured-handshake-with-record");
        }
    }
    let near = (enc.len() as i64 - 1280).abs() <= 2 || (enc.len() as i64 - 63).abs() <= 2;
    rep.nontrivial = is_hs || near;
    if enc.len() > 1280 {
        rep.class("structured-overflow->1280");
        match packet_decode(&dst, ident, &enc) {
            Err(_) => {}
            Ok(_) => rep.fail("packet/accepted-invalid/TooLong", format!("a {}-byte datagram was accepted", enc.len())),
        }
        return;
    }
    if enc.len() == 1280 {
        rep.class("structured-exactly-1280");
    }
    match packet_decode(&dst, ident, &enc) {
        Err(e) => {
            rep.fail("packet/roundtrip-rejected", format!("decode(encode(p)) failed with {e} for {:?} (len {})", sp.kind, enc.len()));
            return;
        }
        Ok((p2, aad)) => {
            if p2 != v {
                rep.fail("packet/roundtrip-different-packet", format!("decode(encode(p)) != p for {:?}", sp.kind));
                return;
            }
            if aad != raad {
                rep.fail("packet/roundtrip-different-aad", format!("authenticated data differs from iv||unmasked header for {:?}", sp.kind));
                return;
            }
        }
    }
    // a datagram masked for another node id is not accepted
    if sp.other_dst[..16] == sp.dst[..16] {
        rep.exclude("ids-sharing-128-leading-bits", 1);
    } else {
        let other = crate::ids::node_id(&sp.other_dst);
        if packet_decode(&other, ident, &enc).is_ok() {
            rep.fail("packet/accepted-datagram-masked-for-other-id", "decode with a different local id accepted the datagram".to_string());
            return;
        }
    }
    // foreign protocol identity is rejected
    let foreign = ProtocolIdentity { protocol_id: *b"discv6", protocol_version: ident.protocol_version };
    if foreign.protocol_id != ident.protocol_id && packet_decode(&dst, foreign, &enc).is_ok() {
        rep.fail("packet/accepted-invalid/ProtocolId", "decode under a different protocol id accepted the datagram".to_string());
    }
}

/// Differential judgement of arbitrary bytes.
fn judge(local: &Id, ident: ProtocolIdentity, data: &[u8], rep: &mut CaseReport) {
    let lid = crate::ids::node_id(local);
    let got = packet_decode(&lid, ident, data);
    let want = rp::decode(local, &ident.protocol_id, &ident.protocol_version, data);
    // whatever is accepted: the authenticated bytes must be the header AS RECEIVED (iv || unmasked
    // static header || unmasked auth-data of the declared size), independent of how it was parsed
    if let Ok((_, aad)) = &got {
        if data.len() >= 39 {
            let iv: [u8; 16] = data[..16].try_into().unwrap();
            let mut un = data[16..].to_vec();
            rp::mask(local, &iv, &mut un);
            let ads = u16::from_be_bytes([un[21], un[22]]) as usize;
            let end = (23 + ads).min(un.len());
            let mut expect = iv.to_vec();
            expect.extend_from_slice(&un[..end]);
            if aad != &expect {
                rep.fail(
                    "packet/aad-differs-from-received-header",
                    format!("decode returned {} authenticated bytes that differ from iv || unmasked header as received ({} bytes)", aad.len(), expect.len()),
                );
                return;
            }
        }
    }
    match (&got, &want) {
        (Ok((p, aad)), Ok((rpk, raad))) => {
            if &to_ref(p) != rpk {
                rep.fail("packet/decoded-value-differs-from-reference", format!("crate: {p:?}\nreference: {rpk:?}"));
            } else if aad != raad {
                rep.fail("packet/decoded-aad-differs-from-reference", "authenticated data mismatch".to_string());
            }
            rep.class("raw-accepted");
        }
        (Ok((p, _)), Err(e)) => {
            if e.must_reject() {
                rep.fail(format!("packet/accepted-invalid/{e:?}"), format!("crate accepted a datagram ({} bytes) the statement says must be rejected ({e:?}); decoded as {:?}", data.len(), p.kind));
            } else {
                rep.count(format!("tolerated_leniency/{e:?}"), 1);
            }
        }
        (Err(e), Ok((rpk, _))) => {
            rep.fail("packet/rejected-valid", format!("crate rejected ({e}) a datagram the reference decodes as {:?}", rpk.kind));
        }
        (Err(_), Err(e)) => {
            rep.class(format!("raw-rejected/{e:?}"));
        }
    }
    if let Err(e) = &want {
        if !matches!(e, PErr::ProtocolId | PErr::Version | PErr::TooShort | PErr::TooLong) {
            rep.nontrivial = true;
        }
    } else {
        rep.nontrivial = true;
    }
}

fn run_raw(rp_: &RawP, rep: &mut CaseReport) {
    let sp = &rp_.base;
    if iv_wraps(&sp.iv) {
        rep.exclude("iv-low64-wraps(ctr counter width unspecified)", 1);
        return;
    }
    let ident = identity(sp);
    let (_v, r) = build(sp);
    let mut pid = r.protocol_id;
    let mut ver = r.version;
    let mut flag = rp::flag(&r.kind);
    let mut ad = rp::authdata(&r.kind);
    let mut body = r.message.clone();
    let mut ads: i64 = ad.len() as i64;
    let mut ads_abs: Option<u16> = None;
    let mut truncate: Option<usize> = None;
    let mut extend: usize = 0;
    let mut dest = sp.dst;
    for m in &rp_.muts {
        match m {
            Mut::ProtocolIdByte(i, x) => pid[*i as usize % 6] ^= (*x).max(1),
            Mut::Version(v) => ver = v.to_be_bytes(),
            Mut::Flag(f) => flag = *f,
            Mut::AuthSizeDelta(d) => ads += *d as i64,
            Mut::AuthSizeAbs(a) => ads_abs = Some(*a),
            Mut::SigSizeByte(b) => {
                if ad.len() > 32 {
                    ad[32] = *b
                }
            }
            Mut::KeySizeByte(b) => {
                if ad.len() > 33 {
                    ad[33] = *b
                }
            }
            Mut::TruncateTo(n) => truncate = Some(*n as usize),
            Mut::Extend(n) => extend += *n as usize,
            Mut::AppendInAuth(n) => {
                ad.extend_from_slice(&stream(sp.seed ^ 7, *n as usize));
                ads += *n as i64;
            }
            Mut::CorruptAuth(off, mask) => {
                if !ad.is_empty() {
                    let i = (*off as usize * ad.len()) >> 16;
                    ad[i] ^= (*mask).max(1);
                }
            }
            Mut::BodyLen(n) => body = stream(sp.seed ^ 9, *n as usize),
            Mut::RemaskOther => dest = sp.other_dst,
        }
    }
    let declared: u16 = ads_abs.unwrap_or(ads.clamp(0, 65535) as u16);
    let mut rest = ad.clone();
    rest.extend_from_slice(&body);
    rest.extend_from_slice(&stream(sp.seed ^ 11, extend));
    let mut data = rp::assemble_raw(&dest, &sp.iv, &pid, &ver, flag, &r.nonce, declared, &rest, declared as usize);
    if let Some(n) = truncate {
        data.truncate(n);
    }
    if dest != sp.dst && dest[..16] == sp.dst[..16] {
        rep.exclude("ids-sharing-128-leading-bits", 1);
        return;
    }
    for m in &rp_.muts {
        rep.class(format!("mut/{}", format!("{m:?}").split(|c: char| c == '(' || c == ' ').next().unwrap_or("")));
    }
    judge(&sp.dst, ident, &data, rep);
}

async fn run_wire(sizes: &[u16], seed: u64, rep: &mut CaseReport) -> Option<(String, String)> {
    use crate::engines::wire::{attacker_addr, AppMode, Know, WireConfig, World};
    use discv5::verif::HandlerOut;
    let cfg = WireConfig {
        n_peers: 1,
        retries: 0,
        filter: false,
        wru_mode: vec![AppMode::Manual; 4],
        wru_know: vec![Know::Nothing; 4],
        resp_mode: vec![AppMode::Manual; 4],
        nodes_packets: 1,
        seqs: vec![1; 4],
        nat_peers: vec![],
        nat_kind: 0,
        dual_records: false,
        foreign_enr_answer: vec![],
        v_session_timeout_ms: None,
        v_session_capacity: None,
        v_dual_listen: false,
    };
    let mut w = World::new(cfg).await;
    let dst = w.nodes[0].id;
    rep.class("receive-path-companion");
    for (j, size) in sizes.iter().enumerate() {
        let size = (*size as usize).clamp(71, 1400);
        let r = stream(seed.wrapping_add(j as u64 * 7919), 32 + 16 + 12 + size);
        let mut src = [0u8; 32];
        src.copy_from_slice(&r[..32]);
        let mut iv = [0u8; 16];
        iv.copy_from_slice(&r[32..48]);
        if iv_wraps(&iv) {
            iv[15] = 0;
            iv[14] = 0;
        }
        let mut nonce = [0u8; 12];
        nonce.copy_from_slice(&r[48..60]);
        let vp = VPacket {
            iv: u128::from_be_bytes(iv),
            message_nonce: nonce,
            protocol_identity: ProtocolIdentity::default(),
            kind: PacketKind::Message { src_id: crate::ids::node_id(&src) },
            message: r[60..60 + size - 71].to_vec(),
        };
        let bytes = packet_encode(vp, &crate::ids::node_id(&dst));
        if bytes.len() != size {
            return Some(("HARNESS/wire-companion-size".into(), format!("built {} bytes, wanted {size}", bytes.len())));
        }
        let from = attacker_addr((j % 3) as u8);
        let ev0 = w.events.len();
        w.inject(0, from, bytes, None, Some("c05-wire".into()));
        w.settle().await;
        w.step += 1;
        let seen = w.events[ev0..].iter().any(|e| {
            e.node == 0 && matches!(&e.out, HandlerOut::WhoAreYou(r) if r.0.node_id.raw() == src && r.0.socket_addr == from && discv5::verif::whoareyou_ref_nonce(r) == nonce)
        });
        if size <= 1280 && !seen {
            return Some((
                "packet/wellformed-datagram-lost-in-receive-path".into(),
                format!("a well-formed ordinary message datagram of {size} bytes from an unknown source was put on the handler's socket and did not come out of the receive path (no who-are-you query for its source)"),
            ));
        }
        if size > 1280 && seen {
            // not asserted: the receive buffer has 1280 bytes and recv_from truncates, so the first
            // 1280 bytes of a longer datagram are what the node sees (DESIGN.md 11.4); counted
            rep.count("oversize_datagram_truncated_by_the_socket_and_processed", 1);
        }
        if size >= 1278 && size <= 1282 {
            rep.class("receive-path-datagram-within-2-bytes-of-1280");
            rep.nontrivial = true;
        }
    }
    None
}

pub fn run_case(case: &Case) -> CaseReport {
    let mut rep = CaseReport::default();
    match case {
        Case::Structured(sp) => run_structured(sp, &mut rep),
        Case::Raw(r) => run_raw(r, &mut rep),
        Case::Wire { sizes, seed } => {
            let rt = tokio::runtime::Builder::new_current_thread().enable_all().start_paused(true).build().expect("runtime");
            let v = rt.block_on(run_wire(sizes, *seed, &mut rep));
            drop(rt);
            if let Some((sig, d)) = v {
                rep.fail(sig, d);
            }
            if let Some(p) = crate::runner::take_panic() {
                rep.fail(format!("panic-in-task/{}", p.split(':').take(2).collect::<Vec<_>>().join(":")), p);
            }
        }
        Case::Unmasked { dst, iv, rest } => {
            if iv_wraps(iv) {
                rep.exclude("iv-low64-wraps(ctr counter width unspecified)", 1);
                return rep;
            }
            let declared = if rest.len() >= 23 { u16::from_be_bytes([rest[21], rest[22]]) as usize } else { 0 };
            let hdr = (23 + declared).min(rest.len());
            let mut data = iv.to_vec();
            let mut masked = rest[..hdr].to_vec();
            rp::mask(dst, iv, &mut masked);
            data.extend_from_slice(&masked);
            data.extend_from_slice(&rest[hdr..]);
            rep.class("unmasked-domain-input");
            judge(dst, ProtocolIdentity::default(), &data, &mut rep);
        }
        Case::Bytes { local, len, seed, prefix } => {
            let mut data = prefix.clone();
            data.extend_from_slice(&stream(*seed, (*len as usize).saturating_sub(prefix.len())));
            data.truncate(*len as usize);
            rep.class(match data.len() {
                0 => "bytes-len-0",
                1..=62 => "bytes-len-1..62",
                63 => "bytes-len-63",
                64..=1280 => "bytes-len-64..1280",
                _ => "bytes-len->1280",
            });
            judge(local, ProtocolIdentity::default(), &data, &mut rep);
            // strictness that needs no reference: length limits
            let lid = crate::ids::node_id(local);
            if (data.len() < 63 || data.len() > 1280) && packet_decode(&lid, ProtocolIdentity::default(), &data).is_ok() {
                rep.fail("packet/accepted-invalid/length", format!("a {}-byte datagram was accepted", data.len()));
            }
        }
    }
    rep
}

fn id_strategy() -> BoxedStrategy<Id> {
    prop_oneof![
        4 => any::<[u8; 32]>(),
        1 => Just([0u8; 32]),
        1 => Just([0xffu8; 32]),
    ]
    .boxed()
}

fn sp_strategy() -> BoxedStrategy<SP> {
    let kind = prop_oneof![
        3 => id_strategy().prop_map(|src| SKind::Message { src }),
        2 => (any::<[u8; 16]>(), prop_oneof![Just(0u64), Just(1u64), Just(u64::MAX), any::<u64>()])
            .prop_map(|(id_nonce, enr_seq)| SKind::WhoAreYou { id_nonce, enr_seq }),
        5 => (
            id_strategy(),
            prop_oneof![3 => Just(64u8), 1 => Just(0u8), 1 => Just(255u8), 2 => any::<u8>()],
            prop_oneof![3 => Just(33u8), 1 => Just(0u8), 1 => Just(255u8), 2 => any::<u8>()],
            proptest::option::of((any::<u16>(), 1u8..4, prop_oneof![Just(100u16), Just(300u16), 100u16..=300])
                .prop_map(|(key, seq, size)| RecSel { key, seq, size }))
        )
            .prop_map(|(src, sig_len, key_len, record)| SKind::Handshake { src, sig_len, key_len, record }),
    ];
    let body = prop_oneof![
        4 => (0u16..200).prop_map(BodyLen::Exact),
        2 => (0u16..1300).prop_map(BodyLen::Exact),
        3 => (-3i8..=3).prop_map(BodyLen::TotalRelativeToMax),
    ];
    (
        id_strategy(),
        id_strategy(),
        prop_oneof![
            12 => any::<[u8; 16]>(),
            1 => Just([0xffu8; 16]),
            1 => Just([0u8; 16]),
            // low 64 bits close to the wrap (the header spans up to 80 cipher blocks)
            1 => (any::<[u8; 8]>(), 0u8..100).prop_map(|(hi, d)| { let mut iv = [0xffu8; 16]; iv[..8].copy_from_slice(&hi); iv[15] = 0xff - d; iv }),
        ],
        any::<[u8; 12]>(),
        proptest::option::weighted(0.15, (any::<[u8; 6]>(), any::<[u8; 2]>())),
        kind,
        body,
        any::<u64>(),
    )
        .prop_map(|(dst, other_dst, iv, nonce, identity, kind, body, seed)| SP { dst, other_dst, iv, nonce, identity, kind, body, seed })
        .boxed()
}

fn mut_strategy() -> BoxedStrategy<Mut> {
    prop_oneof![
        2 => (0u8..6, any::<u8>()).prop_map(|(i, x)| Mut::ProtocolIdByte(i, x)),
        2 => any::<u16>().prop_map(Mut::Version),
        4 => prop_oneof![0u8..=3, any::<u8>()].prop_map(Mut::Flag),
        4 => (-40i16..=40).prop_map(Mut::AuthSizeDelta),
        3 => prop_oneof![Just(0u16), Just(23), Just(24), Just(25), Just(31), Just(32), Just(33), Just(34), Just(35), any::<u16>()].prop_map(Mut::AuthSizeAbs),
        4 => any::<u8>().prop_map(Mut::SigSizeByte),
        4 => any::<u8>().prop_map(Mut::KeySizeByte),
        3 => prop_oneof![0u16..70, 0u16..1400].prop_map(Mut::TruncateTo),
        2 => (1u16..64).prop_map(Mut::Extend),
        3 => (1u8..40).prop_map(Mut::AppendInAuth),
        4 => (any::<u16>(), any::<u8>()).prop_map(|(o, m)| Mut::CorruptAuth(o, m)),
        3 => prop_oneof![1u16..4, 0u16..1300].prop_map(Mut::BodyLen),
        1 => Just(Mut::RemaskOther),
    ]
    .boxed()
}

impl Property for C05 {
    type Case = Case;
    const ID: &'static str = "C05";
    fn cases(tier: Tier) -> u64 {
        tier.pick(1_000_000, 16_000_000)
    }
    fn strategy(_tier: Tier) -> BoxedStrategy<Case> {
        let bytes = (
            id_strategy(),
            prop_oneof![2 => Just(0u16), 3 => 1u16..=62, 2 => Just(63u16), 6 => 64u16..=1280, 3 => 1281u16..=1400, 1 => Just(1280u16), 1 => Just(1281u16)],
            any::<u64>(),
            proptest::collection::vec(any::<u8>(), 0..48),
        )
            .prop_map(|(local, len, seed, prefix)| Case::Bytes { local, len, seed, prefix });
        prop_oneof![
            120 => sp_strategy().prop_map(Case::Structured),
            150 => (sp_strategy(), proptest::collection::vec(mut_strategy(), 1..4)).prop_map(|(base, muts)| Case::Raw(RawP { base, muts })),
            60 => bytes,
            // one case in ~330: receive-path companion (a real handler per case)
            1 => (proptest::collection::vec(prop_oneof![4 => 71u16..=1280, 2 => 1276u16..=1284, 1 => Just(1280u16), 1 => 1281u16..=1400, 1 => Just(71u16)], 1..12), any::<u64>()).prop_map(|(sizes, seed)| Case::Wire { sizes, seed }),
        ]
        .boxed()
    }
    fn run(case: &Case) -> CaseReport {
        run_case(case)
    }
    fn rule() -> String {
        "three generators: (1) structured well-formed packets of the three kinds (ids incl. all-zero/all-one, IV/nonce arbitrary, default or custom protocol identity, handshake signature/key sizes 0..255, with/without a pool record of 100..300 bytes, body 0..max incl. exactly filling 1280 and overflowing by 1..3): encode byte-equal to the reference encoder, decode(encode(p)) = (p, iv||unmasked header), rejected under another local id and another protocol id, >1280 rejected; (2) the same packets with 1..3 field mutations applied in the UNMASKED domain (protocol id, version, flag, auth-data size delta/absolute, signature/key size bytes, truncation, extension, bytes appended inside auth-data, auth-data corruption incl. the record, WHOAREYOU body, re-masking for another id): crate decoder compared with the reference decoder, crate-accepts/reference-rejects is a violation when the reason is on the statement's must-reject list; (3) arbitrary bytes in the length classes 0, 1..62, 63, 64..1280, 1281..1400: totality + differential; (4) one case in ~330 is a receive-path companion: 1..11 well-formed ordinary message datagrams of 71..1400 bytes (biased to 1276..1284) from distinct unknown sources are put on the virtual socket of a real handler; each one of <= 1280 bytes must come out of the receive path (observed as the handler's who-are-you query for exactly that source and nonce); longer ones are truncated by the socket to 1280 bytes and are only counted. Non-trivial: (1) handshake packets or datagrams within 2 bytes of 63/1280; (2),(3) inputs that pass the protocol-id/version check (reach kind / auth-data logic).".into()
    }
    fn assumptions() -> Vec<String> {
        vec![
            "the reference codec (harness/src/refmodel/packet.rs) is written from the discv5.1 wire specification with the aes/ctr crates; node records are validated with the enr crate (outside the repository under test)".into(),
            "CTR counter width: the reference uses a 128-bit big-endian counter, the crate a 64-bit one; IVs whose low 64 bits wrap within one datagram are excluded and counted (the specification does not state the width)".into(),
            "destination ids sharing their first 128 bits share the masking key by specification: excluded and counted".into(),
            "bytes following a valid record inside handshake auth-data are accepted by the crate (Enr::decode leaves them unread): counted as tolerated_leniency, not in the statement's reject list".into(),
        ]
    }
}
