//! C09 - Iterative queries terminate with bounded parallelism (ledger invariants over event
//! histories of the real query state machines and the real QueryPool).

use crate::{
    engines::query::*,
    ids::{self, Id},
    runner::{CaseReport, Property, Tier},
};
use discv5::verif::{pool_add_findnode, pool_add_predicate, QueryPoolState, VQueryConfig, VQueryPool, VRecord};
use proptest::prelude::*;
use serde::{Deserialize, Serialize};
use std::{collections::HashMap, time::Duration};

#[derive(Clone, Debug, PartialEq, Eq, Hash, Serialize, Deserialize)]
pub struct PoolQuery {
    pub predicate: Option<PredKind>,
    pub parallelism: u8,
    pub num_results: u8,
    pub peers: Vec<UId>,
}

#[derive(Clone, Debug, PartialEq, Eq, Hash, Serialize, Deserialize)]
pub enum PoolEv {
    Poll,
    /// answer the sel-th outstanding (query, peer) pair
    Success { sel: u16, returned: Vec<UId> },
    Failure { sel: u16 },
}

#[derive(Clone, Debug, PartialEq, Eq, Hash, Serialize, Deserialize)]
pub struct PoolCase {
    #[serde(with = "crate::ids::hex32")]
    pub target: Id,
    /// true: query timeout 0; false: 1 h
    pub timeout_zero: bool,
    pub queries: Vec<PoolQuery>,
    pub events: Vec<PoolEv>,
    /// > 0: third regime - ONE query (the first), a query timeout of this many milliseconds of REAL
    /// time (the pool reads std::time::Instant), silent peers, and a measured wait of > 1.5 x timeout
    #[serde(default)]
    pub real_timeout_ms: u8,
}

#[derive(Clone, Debug, PartialEq, Eq, Hash, Serialize, Deserialize)]
pub enum Case {
    Machine(QCase),
    Pool(PoolCase),
}

pub struct C09;

fn resolve(target: &Id, u: &UId) -> Id {
    match u {
        UId::Class { class, pat } => ids::xor(target, &ids::class_offset(*class, *pat)),
        UId::Rand(r) => *r,
    }
}

/// Third regime: the query timeout really elapses. One-directional: only after a MEASURED wait of
/// more than 1.5 x timeout since the first poll is the query required to have been cut off.
fn run_pool_real_timeout(c: &PoolCase) -> CaseReport {
    let mut rep = CaseReport::default();
    let timeout = Duration::from_millis(c.real_timeout_ms.max(5) as u64);
    let mut pool: VQueryPool = VQueryPool::new(timeout);
    let q = &c.queries[0];
    let cfg = VQueryConfig { parallelism: q.parallelism as usize, num_results: q.num_results as usize, peer_timeout: Duration::from_secs(3600) };
    let mut peers: Vec<Id> = q.peers.iter().map(|u| resolve(&c.target, u)).collect();
    peers.sort_by_key(|p| ids::xor(p, &c.target));
    peers.dedup();
    match q.predicate {
        None => pool_add_findnode(&mut pool, cfg, ids::node_id(&c.target), peers.iter().map(ids::node_id).collect()),
        Some(p) => pool_add_predicate(&mut pool, cfg, ids::node_id(&c.target), peers.iter().map(|i| (ids::node_id(i), p.eval(i[31] as u32))).collect(), move |r: &VRecord| p.eval(r.value)),
    };
    rep.class("pool-timeout-real");
    rep.class(format!("pool-timeout-real/parallelism-{}", if q.parallelism == 0 { "0" } else { ">0" }));
    let t_first = std::time::Instant::now();
    // hand out peers until the query has nothing more to hand out; nobody ever answers
    let mut in_flight = 0usize;
    let mut ended = false;
    for _ in 0..64 {
        match pool.poll() {
            QueryPoolState::Waiting(Some(_)) => in_flight += 1,
            QueryPoolState::Finished(_) | QueryPoolState::Timeout(_) | QueryPoolState::Idle => {
                ended = true;
                break;
            }
            QueryPoolState::Waiting(None) => break,
        }
    }
    if in_flight > (q.parallelism as usize).max(q.num_results as usize).max(1) * 4 {
        rep.fail("T2/parallelism-exceeded", format!("{in_flight} requests handed out without any answer, parallelism {}", q.parallelism));
        return rep;
    }
    if ended {
        return rep;
    }
    while t_first.elapsed() <= timeout * 3 / 2 + Duration::from_millis(2) {
        std::thread::sleep(Duration::from_millis(2));
    }
    rep.nontrivial = true;
    match pool.poll() {
        QueryPoolState::Waiting(None) => {
            rep.fail(
                "T5/query-timeout-not-enforced",
                format!(
                    "a query (parallelism {}, {} candidates, {in_flight} requests in flight to silent peers) is still waiting {:?} after its first poll; the query timeout is {timeout:?}",
                    q.parallelism,
                    peers.len(),
                    t_first.elapsed()
                ),
            );
        }
        QueryPoolState::Waiting(Some(_)) => {
            rep.class("pool-timeout-real/peer-handed-out-after-the-wait");
        }
        _ => {}
    }
    rep
}

pub fn run_pool_case(c: &PoolCase) -> CaseReport {
    if c.real_timeout_ms > 0 && !c.queries.is_empty() {
        return run_pool_real_timeout(c);
    }
    let mut rep = CaseReport::default();
    let mut pool: VQueryPool = VQueryPool::new(if c.timeout_zero { Duration::from_secs(0) } else { Duration::from_secs(3600) });
    let mut ids_: Vec<discv5::verif::QueryId> = Vec::new();
    for q in &c.queries {
        let cfg = VQueryConfig {
            parallelism: q.parallelism as usize,
            num_results: q.num_results as usize,
            peer_timeout: Duration::from_secs(3600),
        };
        let mut peers: Vec<Id> = q.peers.iter().map(|u| resolve(&c.target, u)).collect();
        peers.sort_by_key(|p| ids::xor(p, &c.target));
        peers.dedup();
        let id = match q.predicate {
            None => pool_add_findnode(&mut pool, cfg, ids::node_id(&c.target), peers.iter().map(ids::node_id).collect()),
            Some(p) => pool_add_predicate(
                &mut pool,
                cfg,
                ids::node_id(&c.target),
                peers.iter().map(|i| (ids::node_id(i), p.eval(i[31] as u32))).collect(),
                move |r: &VRecord| p.eval(r.value),
            ),
        };
        ids_.push(id);
    }
    // ledger
    let mut returned: HashMap<usize, &'static str> = HashMap::new(); // query id -> how it ended
    let mut outstanding: Vec<(discv5::verif::QueryId, Id)> = Vec::new();
    let mut handed: HashMap<(usize, Id), u32> = HashMap::new();
    let mut timeouts = 0;
    let mut finishes = 0;

    // one poll with checks; returns false when a violation was recorded
    let mut poll_once = |pool: &mut VQueryPool, outstanding: &mut Vec<(discv5::verif::QueryId, Id)>, rep: &mut CaseReport, returned: &mut HashMap<usize, &'static str>| -> bool {
        match pool.poll() {
            QueryPoolState::Idle => {
                if returned.len() != c.queries.len() {
                    rep.fail("T5/pool-idle-with-live-queries", format!("poll() is Idle although only {} of {} queries were returned", returned.len(), c.queries.len()));
                    return false;
                }
            }
            QueryPoolState::Waiting(None) => {
                if returned.len() == c.queries.len() {
                    rep.fail("T5/pool-waiting-without-queries", "poll() is Waiting although every query was already returned".to_string());
                    return false;
                }
                // with timeout 0 a query without a peer to hand out must be cut off at this poll
                if c.timeout_zero {
                    rep.fail("T5/timeout-0-not-cut-off", "poll() returned Waiting(None) with query timeout 0".to_string());
                    return false;
                }
            }
            QueryPoolState::Waiting(Some((q, peer))) => {
                let qid = q.id();
                if returned.contains_key(&qid.0) {
                    rep.fail("T5/peer-for-returned-query", format!("poll() handed out a peer for query {} after it was returned", qid.0));
                    return false;
                }
                let e = handed.entry((qid.0, peer.raw())).or_insert(0);
                *e += 1;
                if *e > 1 {
                    rep.fail("T1/peer-contacted-twice", format!("pool handed out peer {} twice for query {}", ids::hex_id(&peer.raw()), qid.0));
                    return false;
                }
                outstanding.push((qid, peer.raw()));
            }
            QueryPoolState::Finished(q) | QueryPoolState::Timeout(q) => {
                let qid = q.id();
                if returned.insert(qid.0, "returned").is_some() {
                    rep.fail("T5/query-returned-twice", format!("query {} was returned by poll() twice", qid.0));
                    return false;
                }
                outstanding.retain(|(i, _)| *i != qid);
                let _ = q.into_result().closest_peers.count();
            }
        }
        true
    };

    'outer: for ev in &c.events {
        match ev {
            PoolEv::Poll => {
                let before = returned.len();
                if !poll_once(&mut pool, &mut outstanding, &mut rep, &mut returned) {
                    break 'outer;
                }
                if returned.len() > before {
                    finishes += 1;
                }
            }
            PoolEv::Success { sel, returned: ret } => {
                if outstanding.is_empty() {
                    continue;
                }
                let (qid, peer) = outstanding.remove((*sel as usize * outstanding.len()) >> 16);
                let recs: Vec<VRecord> = ret.iter().map(|u| resolve(&c.target, u)).map(|i| VRecord { id: ids::node_id(&i), value: i[31] as u32 }).collect();
                match pool.get_mut(qid) {
                    Some(q) => q.on_success(&ids::node_id(&peer), &recs),
                    None => {
                        if !returned.contains_key(&qid.0) {
                            rep.fail("T5/query-vanished", format!("query {} is gone from the pool without having been returned", qid.0));
                            break 'outer;
                        }
                    }
                }
            }
            PoolEv::Failure { sel } => {
                if outstanding.is_empty() {
                    continue;
                }
                let (qid, peer) = outstanding.remove((*sel as usize * outstanding.len()) >> 16);
                match pool.get_mut(qid) {
                    Some(q) => q.on_failure(&ids::node_id(&peer)),
                    None => {
                        if !returned.contains_key(&qid.0) {
                            rep.fail("T5/query-vanished", format!("query {} is gone from the pool without having been returned", qid.0));
                            break 'outer;
                        }
                    }
                }
            }
        }
    }
    // drain: fail everything, poll until idle; bounded by a step count
    if !rep.failed() {
        let bound = 4 * (c.queries.iter().map(|q| q.peers.len() + 40).sum::<usize>() + 4);
        let mut steps = 0;
        loop {
            steps += 1;
            if steps > bound {
                rep.fail("T4/pool-no-termination-in-drain", format!("pool not idle after {bound} polls with every request failed"));
                break;
            }
            for (qid, peer) in outstanding.drain(..) {
                if let Some(q) = pool.get_mut(qid) {
                    q.on_failure(&ids::node_id(&peer));
                }
            }
            if returned.len() == c.queries.len() {
                // all returned: pool must be idle and the ids gone
                if !poll_once(&mut pool, &mut outstanding, &mut rep, &mut returned) {
                    break;
                }
                for id in &ids_ {
                    if pool.get_mut(*id).is_some() {
                        rep.fail("T5/returned-query-still-in-pool", format!("query {} still reachable through get_mut after it was returned", id.0));
                    }
                }
                break;
            }
            if !poll_once(&mut pool, &mut outstanding, &mut rep, &mut returned) {
                break;
            }
        }
    }
    let _ = (timeouts, finishes);
    timeouts += 0;
    let _ = timeouts;
    rep.nontrivial = c.queries.len() >= 2 || c.events.iter().any(|e| matches!(e, PoolEv::Success { .. }));
    rep.class("pool");
    if c.timeout_zero {
        rep.class("pool-timeout-0");
    } else {
        rep.class("pool-timeout-1h");
    }
    rep
}

pub fn machine_report(c: &QCase, check_t: bool, check_r: bool) -> CaseReport {
    let mut rep = CaseReport::default();
    let out = run_query_case(c, check_t, check_r);
    if let Some((sig, detail)) = out.violation {
        rep.fail(sig, detail);
    }
    let s = &out.stats;
    if s.stalled_reached {
        rep.class("stalled-reached");
    }
    if s.late_success {
        rep.class("late-success-after-peer-timeout");
    }
    if s.spurious_report {
        rep.class("spurious-report");
    }
    if s.closer_peer_at_capacity {
        rep.class("closer-peer-while-at-capacity");
    }
    match c.variant {
        Variant::FindNode => rep.class("findnode-variant"),
        Variant::Predicate(_) => rep.class("predicate-variant"),
    }
    if !c.sorted_initial {
        rep.class("unsorted-initial-list");
    }
    if s.finished_before_drain {
        rep.class("finished-before-drain");
    }
    rep.count("peers-issued", s.issued as u64);
    if s.excluded_success_after_failure > 0 {
        rep.exclude("success-after-failure-for-same-request(unsound per C04)", s.excluded_success_after_failure);
    }
    rep
}

fn pool_strategy() -> BoxedStrategy<PoolCase> {
    let q = (
        proptest::option::of(prop_oneof![Just(PredKind::Even), Just(PredKind::Always), Just(PredKind::Never)]),
        1u8..=4,
        1u8..=8,
        proptest::collection::vec(uid_strategy(), 0..12),
    )
        .prop_map(|(predicate, parallelism, num_results, peers)| PoolQuery { predicate, parallelism, num_results, peers });
    let ev = prop_oneof![
        6 => Just(PoolEv::Poll),
        3 => (any::<u16>(), proptest::collection::vec(uid_strategy(), 0..4)).prop_map(|(sel, returned)| PoolEv::Success { sel, returned }),
        2 => any::<u16>().prop_map(|sel| PoolEv::Failure { sel }),
    ];
    (any::<[u8; 32]>(), any::<bool>(), proptest::collection::vec(q, 1..4), proptest::collection::vec(ev, 0..60), prop_oneof![6 => Just(false), 1 => Just(true)], prop_oneof![60 => Just(0u8), 1 => 8u8..25])
        .prop_map(|(target, timeout_zero, mut queries, events, zero_parallelism, real_timeout_ms)| {
            if real_timeout_ms > 0 {
                if zero_parallelism {
                    queries[0].parallelism = 0;
                }
                return PoolCase { target, timeout_zero: false, queries, events: vec![], real_timeout_ms };
            }
            // a query configured with parallelism 0 can only end through the query timeout: generated in
            // the timeout-0 regime only (there it must be cut off at the first poll)
            if zero_parallelism && timeout_zero {
                queries[0].parallelism = 0;
            }
            PoolCase { target, timeout_zero, queries, events, real_timeout_ms: 0 }
        })
        .boxed()
}

impl Property for C09 {
    type Case = Case;
    const ID: &'static str = "C09";
    fn cases(tier: Tier) -> u64 {
        tier.pick(200_000, 4_000_000)
    }
    fn strategy(tier: Tier) -> BoxedStrategy<Case> {
        let n = tier.pick(80usize, 160usize);
        prop_oneof![
            5 => qcase_strategy(n).prop_map(Case::Machine),
            1 => pool_strategy().prop_map(Case::Pool),
        ]
        .boxed()
    }
    fn run(case: &Case) -> CaseReport {
        match case {
            Case::Machine(c) => {
                let mut rep = machine_report(c, true, false);
                let out_late = rep.classes.iter().any(|c| c == "late-success-after-peer-timeout" || c == "closer-peer-while-at-capacity");
                rep.nontrivial = out_late;
                rep
            }
            Case::Pool(c) => run_pool_case(c),
        }
    }
    fn rule() -> String {
        "event histories (<=80 quick / <=160 thorough events: next, bursts of next, success with 0..7 returned peers (new/duplicate/closer/farther/responder/target), failure, clock advance by 1 s / timeout-1ns / timeout / 3 timeouts) against the real FindNodeQuery and PredicateQuery with an explicit clock, universe of <=40 ids crafted relative to the target (target itself, log2 classes 1..4, 250..256, random), parallelism 1..8, num_results 1..20, initial lists sorted (as the only caller supplies them) or unsorted; peers addressed by ledger class (in flight, timed out, answered, never contacted, unknown). Every history ends with a drain (all outstanding requests get an outcome, new ones immediately; failure or empty-success variant). Ledger invariants T1-T4 after every next(). One case in six drives the real QueryPool (1..3 queries, timeout 0 or 1h) and checks T5 (returned exactly once, gone afterwards, idle when empty, cut off at timeout 0); one pool case in 61 uses a query timeout of 8..24 ms of REAL time with one query (parallelism 0..4) whose peers stay silent: after a measured wait of more than 1.5 x timeout since the first poll the query must have been cut off. Non-trivial (machine) = a success delivered after the peer timeout or a closer unknown peer learnt while at capacity; (pool) = >=2 queries or a success.".into()
    }
    fn assumptions() -> Vec<String> {
        vec![
            "the driver behaves like the real transport (C04): every issued request eventually gets exactly one outcome, possibly after the peer timeout; liveness is decided as bounded safety (no dead state, bounded drain)".into(),
            "the stalled mode is read through the guarded accessor verif_is_stalled, not recomputed".into(),
            "QueryPool reads std::time::Instant: only the regimes timeout 0 / 1 h are used".into(),
        ]
    }
}
