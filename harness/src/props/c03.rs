//! C03 - Handshakes answer only fresh, outstanding challenges.

use crate::{
    engines::{wire::*, wire_interp::*},
    ids,
    props::{c04::decrypt, wire_gen},
    runner::{CaseReport, Property, Tier},
};
use discv5::{
    packet::PacketKind,
    verif::{self as hv, HandlerOut, Message, RequestId},
    RequestError,
};
use proptest::prelude::*;
use serde::{Deserialize, Serialize};
use std::{collections::HashMap, net::SocketAddr};

#[derive(Clone, Debug, PartialEq, Eq, Hash, Serialize, Deserialize)]
pub struct Case {
    pub cfg: WireConfig,
    pub ops: Vec<Op>,
}

pub struct C03;

struct Wru {
    to_id: ids::Id,
    to_addr: SocketAddr,
    /// last (re-)arming time
    armed_ms: u64,
    consumed: bool,
}

#[derive(Default)]
pub struct Freshness {
    /// per node: WHOAREYOUs it emitted
    wrus: HashMap<usize, Vec<Wru>>,
    seen_log: usize,
    seen_events: usize,
    /// per (node, request id): distinct handshake datagrams seen
    handshakes: HashMap<(usize, RequestId), Vec<Vec<u8>>>,
    nontrivial: bool,
    classes: Vec<String>,
    foreign_wru_steps: u64,
    foreign_wru_echoing_inflight: u64,
    /// evaluate only the acceptance clause (fresh, unconsumed challenge); used by C01, whose schedules
    /// contain forged traffic the other clauses are not written for
    pub acceptance_only: bool,
    /// handshake datagrams that were accepted (created / re-keyed a session or led to Established), per node
    accepted_handshakes: Vec<(usize, Vec<u8>)>,
}

fn kind_of(w: &World, j: &Injection) -> Option<(u8, [u8; 12], Option<ids::Id>)> {
    hv::packet_decode(&ids::node_id(&w.nodes[j.to_node].id), Default::default(), &j.bytes).ok().map(|(p, _)| match p.kind {
        PacketKind::Message { src_id } => (0u8, p.message_nonce, Some(src_id.raw())),
        PacketKind::WhoAreYou { .. } => (1, p.message_nonce, None),
        PacketKind::Handshake { src_id, .. } => (2, p.message_nonce, Some(src_id.raw())),
    })
}

impl Oracle for Freshness {
    fn after_step(&mut self, w: &World, op: &Op) -> Option<(String, String)> {
        let now = w.now_ms();
        let slack = 120u64;
        let inj: Vec<&Injection> = w.step_injections().collect();

        // --- clause 3 + ledger of emitted WHOAREYOUs / handshakes
        let new_dgs: Vec<Datagram> = w.log[self.seen_log..].to_vec();
        self.seen_log = w.log.len();
        for d in &new_dgs {
            let Some(i) = d.from_node else { continue };
            match d.decoded.as_ref().map(|p| &p.0.kind) {
                Some(PacketKind::WhoAreYou { .. }) => {
                    self.wrus.entry(i).or_default().push(Wru { to_id: d.to_id.raw(), to_addr: d.to_addr, armed_ms: d.t_ms, consumed: false });
                }
                Some(PacketKind::Handshake { .. }) => {
                    // retransmissions (byte-identical) are fine
                    let is_retx = w.log[..d.idx].iter().any(|o| o.from_node == Some(i) && o.bytes == d.bytes);
                    if is_retx {
                        continue;
                    }
                    // must react to a WHOAREYOU injected in this step that echoes an in-flight nonce
                    // of a request to the address the WHOAREYOU came from
                    let ok = inj.iter().filter(|j| j.to_node == i).any(|j| match kind_of(w, j) {
                        Some((1, nonce, _)) => w.prev_snaps[i].active.iter().any(|a| a.nonce == nonce && a.addr.socket_addr == j.from_addr),
                        _ => false,
                    });
                    if self.acceptance_only {
                        continue;
                    }
                    if !ok {
                        return Some((
                            "whoareyou/handshake-without-matching-inflight-nonce".into(),
                            format!("node {i} emitted a handshake packet to {} in a step in which no WHOAREYOU echoing the nonce of a request in flight to its source address was received (op {op:?})", d.to_addr),
                        ));
                    }
                    if let Some((Message::Request(r), _)) = decrypt(d, &w.keys_seen[i]) {
                        let e = self.handshakes.entry((i, r.id.clone())).or_default();
                        if !e.contains(&d.bytes) {
                            e.push(d.bytes.clone());
                        }
                        if e.len() > 1 {
                            return Some((
                                "whoareyou/second-handshake-for-one-request".into(),
                                format!("node {i} answered request {} with a second, different handshake packet (op {op:?})", r.id),
                            ));
                        }
                    }
                }
                _ => {}
            }
        }

        // --- clause 3b: a WHOAREYOU that does not come from the address a request with that nonce is in
        // flight to is not acted on AT ALL: it neither fails requests nor touches sessions
        for i in 0..w.nodes.len() {
            let mine: Vec<&&Injection> = inj.iter().filter(|j| j.to_node == i).collect();
            if mine.is_empty() || self.acceptance_only {
                continue;
            }
            let all_foreign_wru = mine.iter().all(|j| match kind_of(w, j) {
                Some((1, nonce, _)) => !w.prev_snaps[i].active.iter().any(|a| a.nonce == nonce && a.addr.socket_addr == j.from_addr),
                _ => false,
            });
            if !all_foreign_wru {
                continue;
            }
            self.foreign_wru_steps += 1;
            let echoes_inflight = mine.iter().any(|j| matches!(kind_of(w, j), Some((1, nonce, _)) if w.prev_snaps[i].active.iter().any(|a| a.nonce == nonce)));
            if echoes_inflight {
                self.foreign_wru_echoing_inflight += 1;
            }
            let step_events: Vec<&EvRec> = w.events.iter().rev().take_while(|e| e.step == w.step).filter(|e| e.node == i).collect();
            let timed_out = step_events.iter().any(|e| matches!(&e.out, HandlerOut::RequestFailed(_, RequestError::Timeout)));
            for e in &step_events {
                if let HandlerOut::RequestFailed(id, err) = &e.out {
                    if !matches!(err, RequestError::Timeout) {
                        return Some((
                            "whoareyou/foreign-source-whoareyou-failed-a-request".into(),
                            format!("node {i} failed request {id} with {err:?} in a step that only processed a WHOAREYOU from {} which no request with that nonce is in flight to (op {op:?})", mine[0].from_addr),
                        ));
                    }
                }
            }
            if !timed_out {
                for before in &w.prev_snaps[i].sessions {
                    let after = w.snaps[i].sessions.iter().find(|s| s.addr == before.addr);
                    if after.map(|a| a.keys != before.keys).unwrap_or(true) {
                        return Some((
                            "whoareyou/foreign-source-whoareyou-touched-a-session".into(),
                            format!("node {i}'s session with {} was dropped or re-keyed in a step that only processed a WHOAREYOU from {} which no request with that nonce is in flight to (op {op:?})", before.addr.socket_addr, mine[0].from_addr),
                        ));
                    }
                }
            }
        }

        // --- clause 1/2: acceptance needs an outstanding, unconsumed, unexpired own challenge
        for j in &inj {
            let i = j.to_node;
            let Some((2, _, Some(src))) = kind_of(w, j) else { continue };
            let addr = j.from_addr;
            let before = w.prev_snaps[i].sessions.iter().find(|s| s.addr.socket_addr == addr && s.addr.node_id.raw() == src);
            let after = w.snaps[i].sessions.iter().find(|s| s.addr.socket_addr == addr && s.addr.node_id.raw() == src);
            let accepted = match (before, after) {
                (None, Some(_)) => true,
                (Some(b), Some(a)) => b.keys != a.keys,
                _ => false,
            };
            let established = w.step_events().any(|e| e.node == i && matches!(&e.out, HandlerOut::Established(enr, s, _) if *s == addr && enr.node_id().raw() == src));
            let is_replay = j.manipulation.as_deref().map(|m| m.starts_with("replay")).unwrap_or(false);
            let list = self.wrus.entry(i).or_default();
            let candidate = list
                .iter_mut()
                .rev()
                .find(|c| c.to_id == src && c.to_addr == addr && !c.consumed && now <= c.armed_ms + REQUEST_TIMEOUT_MS + slack);
            if accepted || established {
                // a challenge is fresh: its id-nonce never occurred before, so a handshake datagram that
                // was accepted once can never verify against a later challenge
                if self.accepted_handshakes.iter().any(|(n, b)| *n == i && *b == j.bytes) {
                    return Some((
                        "handshake/same-handshake-datagram-accepted-twice".into(),
                        format!("node {i} {} for ({}, {addr}) on a handshake datagram it had already accepted once ({}) - whatever challenge it answered this time was not fresh (op {op:?})", if accepted { "created/re-keyed a session" } else { "reported Established" }, hex::encode(&src[..4]), j.manipulation.clone().unwrap_or("genuine delivery".into())),
                    ));
                }
                self.accepted_handshakes.push((i, j.bytes.clone()));
                match candidate {
                    Some(c) => c.consumed = true,
                    None => {
                        let stale = list.iter().rev().find(|c| c.to_id == src && c.to_addr == addr);
                        let why = match stale {
                            None => "no-challenge-ever-sent",
                            Some(c) if c.consumed => "challenge-already-consumed",
                            Some(_) => "challenge-expired",
                        };
                        return Some((
                            format!("handshake/accepted-without-fresh-challenge/{why}"),
                            format!(
                                "node {i} {} for ({}, {addr}) on a handshake packet ({}) although {why} (op {op:?})",
                                if accepted { "created/re-keyed a session" } else { "reported Established" },
                                hex::encode(&src[..4]),
                                j.manipulation.clone().unwrap_or("genuine delivery".into())
                            ),
                        ));
                    }
                }
            } else if let Some(c) = candidate {
                // a rejected handshake may re-arm the challenge (invalid signature path): lenient
                c.armed_ms = now;
            }
            if is_replay && candidate_none_or_consumed(&self.wrus, i, &src, &addr, now, slack) {
                self.nontrivial = true;
                let when = if !accepted { "replayed-handshake-inert" } else { "replayed-handshake-accepted" };
                if !self.classes.iter().any(|c| c == when) {
                    self.classes.push(when.into());
                }
            }
        }
        // statistics: replays of WHOAREYOUs
        for j in &inj {
            if let (Some((1, nonce, _)), Some(m)) = (kind_of(w, j), j.manipulation.as_deref()) {
                let live = w.prev_snaps[j.to_node].active.iter().any(|a| a.nonce == nonce);
                let c = format!("whoareyou-{}-{}", m.split(':').next().unwrap_or(""), if live { "nonce-in-flight" } else { "nonce-not-in-flight" });
                if !live {
                    self.nontrivial = true;
                }
                if !self.classes.contains(&c) {
                    self.classes.push(c);
                }
            }
        }
        self.seen_events = w.events.len();
        None
    }

    fn report(&self, _w: &World, rep: &mut CaseReport) {
        rep.nontrivial = self.nontrivial;
        for c in &self.classes {
            rep.class(c.clone());
        }
        rep.count("whoareyous-emitted", self.wrus.values().map(|v| v.len() as u64).sum());
        rep.count("handshakes-emitted", self.handshakes.len() as u64);
        rep.count("steps-with-only-a-foreign-source-whoareyou", self.foreign_wru_steps);
        rep.count("steps-with-only-a-foreign-source-whoareyou-echoing-an-inflight-nonce", self.foreign_wru_echoing_inflight);
        if self.foreign_wru_echoing_inflight > 0 {
            rep.class("foreign-source-whoareyou-echoing-an-inflight-nonce");
        }
    }
}

fn candidate_none_or_consumed(wrus: &HashMap<usize, Vec<Wru>>, i: usize, src: &ids::Id, addr: &SocketAddr, now: u64, slack: u64) -> bool {
    !wrus
        .get(&i)
        .map(|l| l.iter().any(|c| &c.to_id == src && &c.to_addr == addr && !c.consumed && now <= c.armed_ms + REQUEST_TIMEOUT_MS + slack))
        .unwrap_or(false)
}

impl Property for C03 {
    type Case = Case;
    const ID: &'static str = "C03";
    fn cases(tier: Tier) -> u64 {
        tier.pick(32_000, 500_000)
    }
    fn strategy(tier: Tier) -> BoxedStrategy<Case> {
        let n = tier.pick(40usize, 100usize);
        wire_gen::config_strategy(false)
            .prop_flat_map(move |cfg| {
                let np = cfg.n_peers;
                (Just(cfg), wire_gen::ops_strategy(np, wire_gen::Mix::Replay, n))
            })
            .prop_map(|(mut cfg, ops)| {
                // in a third of the cases peer 1 is behind NAT (its record advertises another socket)
                if cfg.seqs.first().map(|s| s % 3 == 0).unwrap_or(false) {
                    cfg.nat_peers = vec![1];
                }
                // in half of the cases the records are dual-stack (an IPv6 socket nobody listens at)
                cfg.dual_records = cfg.seqs.get(1).map(|s| s % 2 == 0).unwrap_or(false);
                // in a third of the cases V's session cache holds ONE session (a new one evicts the other)
                if cfg.seqs.get(3).map(|s| *s == 1).unwrap_or(false) {
                    cfg.v_session_capacity = Some(1);
                }
                Case { cfg, ops }
            })
            .boxed()
    }
    fn run(case: &Case) -> CaseReport {
        let mut rep = CaseReport::default();
        let mut o = Freshness::default();
        run_case_blocking(case.cfg.clone(), &case.ops, Drain::None, &mut o, &mut rep);
        rep
    }
    fn rule() -> String {
        "schedules (<=40 quick / <=100 thorough ops) of honest exchanges in both directions between 2..4 real handlers with restarts (so that several handshakes and WHOAREYOUs exist in the log), plus re-injection of ANY logged datagram at any later point (duplicate before completion, after completion, after the challenge timeout, while a new challenge is outstanding) from the original source, another honest peer's address or an attacker address, and forged WHOAREYOUs echoing the nonce of an in-flight request (also by construction: for a request whose handshake is already out, also after the session that handshake created was evicted from a cache of one), of a completed one, of one in flight to another address, or a random nonce. Ledger of WHOAREYOUs each node emitted: a session may appear / be re-keyed (or Established be reported) on a handshake packet only if an unconsumed WHOAREYOU of that node to exactly (id, source address) exists that is not older than the challenge timeout since its last (re-)arming, and each WHOAREYOU accounts for one acceptance; a node emits a (new) handshake packet only in a step in which it received a WHOAREYOU echoing the nonce of a request in flight to that source address; per request id at most one distinct handshake packet; no handshake datagram is ever accepted twice. Non-trivial = a replayed handshake/WHOAREYOU arrived when its challenge/request was no longer outstanding.".into()
    }
    fn assumptions() -> Vec<String> {
        vec![
            "a rejected handshake may re-arm the challenge timer (invalid-signature path): the ledger treats every rejected handshake for an outstanding challenge as re-arming (lenient direction)".into(),
            "120 ms of slack on the challenge age (clock advanced in 50 ms slices)".into(),
        ]
    }
}
