//! C10 - Query results are sound, ordered and complete (same histories as C09, result oracle).

use crate::{
    engines::query::*,
    engines::svc::*,
    ids, keys,
    props::c09::machine_report,
    runner::{CaseReport, Property, Tier},
};
use discv5::{
    verif::{HandlerIn, HandlerOut, RequestBody, RequestId, Response, ResponseBody},
    NodeAddress, NodeContact, RequestError,
};
use proptest::prelude::*;
use serde::{Deserialize, Serialize};
use std::collections::{HashMap, HashSet};

pub struct C10;

#[derive(Clone, Debug, PartialEq, Eq, Hash, Serialize, Deserialize)]
pub enum Case {
    /// a history of the query state machines (as in C09)
    Machine(QCase),
    /// a whole lookup through the public API of a real service behind a scripted handler
    Lookup(LookupCase),
}

#[derive(Clone, Debug, PartialEq, Eq, Hash, Serialize, Deserialize)]
pub enum Ans {
    /// NODES with up to 4 records picked among the pool records at the requested distances
    Nodes { picks: Vec<u16>, farthest_first: bool },
    /// the same answer split into two packets (total 2)
    NodesTwoPackets { picks: Vec<u16> },
    /// an empty NODES answer
    Empty,
    /// the first of two announced packets arrives (up to 4 records), then the request fails: what was
    /// received is still handed to the lookup
    PartialThenFail { picks: Vec<u16> },
    Fail,
    /// no outcome for now: the request stays outstanding and is answered (empty NODES) while the NEXT
    /// lookup of the case is running - a late answer to a request of a lookup that is over
    Hold,
}

#[derive(Clone, Debug, PartialEq, Eq, Hash, Serialize, Deserialize)]
pub struct LookupCase {
    /// pool key whose id is the lookup target
    pub target: u16,
    /// pool keys of the peers known (add_enr) when the lookup starts
    pub known: Vec<u16>,
    /// how the i-th FINDNODE of the case is answered (cyclic)
    pub script: Vec<Ans>,
    pub predicate: bool,
    /// number of results asked of a predicate lookup (0 = 16)
    #[serde(default)]
    pub num: u8,
    /// a second lookup on the same service after the first one is over (its target)
    #[serde(default)]
    pub second: Option<u16>,
    /// configured max_nodes_response of the service: 0 default (16), 1 -> 4, 2 -> 8, 3 -> 24, 4 -> 64 (answers
    /// carry at most 4 records, so none of these truncates an answer; the size k of a lookup's result
    /// does not depend on it)
    #[serde(default)]
    pub max_nodes: u8,
    /// the node whose id is the lookup target is one of the known peers (it is then a candidate like
    /// any other: it must be asked, and is a result only if it answered)
    #[serde(default)]
    pub target_known: bool,
    /// when the first requests of the first lookup are out, the application removes a known peer that
    /// has not been contacted yet from the routing table (Discv5::remove_node); it stays a candidate of
    /// the running lookup
    #[serde(default)]
    pub remove_during: Option<u16>,
    /// dual-stack service, all records advertise an IPv4 and an IPv6 socket
    #[serde(default)]
    pub dual: bool,
    /// configured query_parallelism: 0 = the default (3), else 1 or 2
    #[serde(default)]
    pub parallelism: u8,
    /// a predicate lookup that asks for ZERO results (it must still hand its - empty - result over)
    #[serde(default)]
    pub zero_results: bool,
    /// the first answer of the case carries 17..24 records in five packets (only with a configured
    /// max_nodes_response of 24 or 64, which lets the service collect them all)
    #[serde(default)]
    pub big_first_answer: u8,
    /// the service is configured with a lookup time-out of 40 ms (measured on the machine's clock);
    /// when requests were left without an outcome the driver waits for it and checks what the caller
    /// gets then (completeness of a short result is not asserted in these cases)
    #[serde(default)]
    pub let_time_out: bool,
}

const LPOOL: u32 = 240;
const LBASE: u32 = 1000;
const PARALLELISM: usize = 3;

thread_local! {
    static LOOKUP_DUAL: std::cell::Cell<bool> = const { std::cell::Cell::new(false) };
}

fn lrec(i: u32) -> discv5::Enr {
    if LOOKUP_DUAL.with(|d| d.get()) {
        // dual-stack records (an IPv4 and an IPv6 socket)
        return shaped_record(LBASE + i % LPOOL, 1, Shape::Both);
    }
    keys::padded_record(LBASE + i % LPOOL, 1, 100)
}

fn odd_port(e: &discv5::Enr) -> bool {
    e.udp4().map(|p| p % 2 == 1).unwrap_or(false)
}

struct Held {
    na: NodeAddress,
    id: RequestId,
}

struct Driven {
    /// the lookup was left to run into its own time-out and finished that way
    timed_out: bool,
    finished: bool,
    results: usize,
    closer_learnt_later: bool,
    held_any: bool,
}

/// Runs one lookup to its end (or until nothing moves any more), answering its FINDNODEs per script.
#[allow(clippy::too_many_arguments)]
async fn drive(
    q: &mut Svc,
    c: &LookupCase,
    target: ids::Id,
    n_req: &mut usize,
    held: &mut Vec<Held>,
    mut late: Vec<Held>,
    which: &str,
) -> Result<Driven, (String, String)> {
    let k = if c.predicate && c.num > 0 { c.num.min(16) as usize } else { 16 };
    // candidates the lookup starts from: the first k of the table entries in distance order
    let mut table: Vec<discv5::Enr> = q.d.table_entries_enr();
    table.sort_by_key(|e| ids::xor(&e.node_id().raw(), &target));
    let mut learned: HashMap<ids::Id, discv5::Enr> = table.iter().take(k).map(|e| (e.node_id().raw(), e.clone())).collect();
    if learned.is_empty() {
        return Ok(Driven { timed_out: false, finished: true, results: 0, closer_learnt_later: false, held_any: false });
    }
    q.take_outbox();
    let handle = if c.predicate {
        tokio::spawn(q.d.find_node_predicate(ids::node_id(&target), Box::new(odd_port), k))
    } else {
        tokio::spawn(q.d.find_node(ids::node_id(&target)))
    };
    q.settle().await;
    let mut contacted: HashSet<ids::Id> = HashSet::new();
    let mut answered: HashSet<ids::Id> = HashSet::new();
    let mut in_flight: usize = 0;
    let mut idle = 0;
    let mut closer_learnt_later = false;
    let mut held_here = false;
    let mut big_answers = 0usize;
    let mut partial_answers = 0usize;
    let mut rounds_with_requests = 0usize;
    let mut removed_candidate = false;
    let mut rounds = 0;
    while idle < 6 && rounds < 400 {
        rounds += 1;
        let out = q.take_outbox();
        let reqs: Vec<(NodeContact, RequestId, Vec<u64>)> = out
            .into_iter()
            .filter_map(|m| match m {
                HandlerIn::Request(contact, r) => match r.body {
                    RequestBody::FindNode { distances } => Some((contact, r.id.clone(), distances)),
                    _ => None,
                },
                _ => None,
            })
            .collect();
        if reqs.is_empty() {
            if handle.is_finished() {
                break;
            }
            idle += 1;
            if idle == 3 {
                // a request that ended without the lookup being told (e.g. a failure after an EMPTY first
                // packet of a multi-packet answer) is only resolved by the lookup's own peer time-out
                tokio::time::sleep(std::time::Duration::from_secs(3)).await;
            }
            q.settle().await;
            continue;
        }
        idle = 0;
        if let (Some(sel), true, true) = (c.remove_during, rounds_with_requests == 0, which == "first") {
            let asked_now: HashSet<ids::Id> = reqs.iter().map(|(c, _, _)| c.node_id().raw()).collect();
            let mut waiting: Vec<ids::Id> = learned.keys().filter(|l| !contacted.contains(*l) && !asked_now.contains(*l)).copied().collect();
            waiting.sort();
            if !waiting.is_empty() {
                let victim = waiting[(sel as usize * waiting.len()) >> 16];
                q.d.remove_node(&ids::node_id(&victim));
                removed_candidate = true;
            }
        }
        rounds_with_requests += 1;
        in_flight += reqs.len();
        // while iterating a lookup keeps `parallelism` requests in flight, once stalled up to k
        let par = if c.parallelism == 0 { PARALLELISM } else { c.parallelism.min(2) as usize };
        let bound = par.max(k);
        if in_flight > bound {
            return Err((
                "lookup/parallelism-exceeded".into(),
                format!("the {which} lookup has {in_flight} FINDNODE requests in flight; configured parallelism {par}, k = {k}"),
            ));
        }
        // answers to requests of the PREVIOUS lookup arrive now, while this one is waiting
        for h in late.drain(..) {
            q.inject(HandlerOut::Response(h.na, Box::new(Response { id: h.id, body: ResponseBody::Nodes { total: 1, nodes: vec![] } }))).await;
        }
        for (contact, id, ds) in reqs {
            let rid = contact.node_id().raw();
            if !contacted.insert(rid) {
                return Err(("lookup/peer-contacted-twice".into(), format!("the {which} lookup sent a second FINDNODE to {}", contact.node_id())));
            }
            let ans = &c.script[*n_req % c.script.len().max(1)];
            *n_req += 1;
            let na = NodeAddress::new(contact.socket_addr(), contact.node_id());
            let matching: Vec<discv5::Enr> = (0..LPOOL)
                .map(lrec)
                .filter(|e| {
                    let eid = e.node_id().raw();
                    eid != rid && eid != q.id && ds.contains(&(ids::log2(&rid, &eid) as u64))
                })
                .collect();
            let pick = |picks: &Vec<u16>| -> Vec<discv5::Enr> {
                let mut v: Vec<discv5::Enr> = Vec::new();
                for p in picks.iter().take(4) {
                    if matching.is_empty() {
                        break;
                    }
                    let e = matching[(*p as usize * matching.len()) >> 16].clone();
                    if !v.iter().any(|x| x.node_id() == e.node_id()) {
                        v.push(e);
                    }
                }
                v
            };
            let big = if *n_req == 1 && c.big_first_answer > 0 && c.max_nodes >= 3 && which == "first" && !c.predicate { Some(17 + (c.big_first_answer as usize % 8)) } else { None };
            let ans = if big.is_some() { &Ans::Empty } else { ans };
            let mut packets: Vec<Vec<discv5::Enr>> = match ans {
                Ans::Fail => {
                    q.inject(HandlerOut::RequestFailed(id.clone(), RequestError::Timeout)).await;
                    in_flight -= 1;
                    continue;
                }
                Ans::Hold => {
                    held.push(Held { na, id });
                    held_here = true;
                    continue;
                }
                Ans::Empty => vec![vec![]],
                Ans::PartialThenFail { picks } => {
                    let v = pick(picks);
                    for e in &v {
                        learned.entry(e.node_id().raw()).or_insert_with(|| e.clone());
                    }
                    q.inject(HandlerOut::Response(na.clone(), Box::new(Response { id: id.clone(), body: ResponseBody::Nodes { total: 2, nodes: v.clone() } }))).await;
                    q.inject(HandlerOut::RequestFailed(id.clone(), RequestError::Timeout)).await;
                    in_flight -= 1;
                    if !v.is_empty() {
                        // (the responder counts as having answered: its partial answer is used)
                        answered.insert(rid);
                        partial_answers += 1;
                    }
                    continue;
                }
                Ans::Nodes { picks, farthest_first } => {
                    let mut v = pick(picks);
                    v.sort_by_key(|e| ids::xor(&e.node_id().raw(), &target));
                    if *farthest_first {
                        v.reverse();
                    }
                    vec![v]
                }
                Ans::NodesTwoPackets { picks } => {
                    let v = pick(picks);
                    let h = v.len() / 2;
                    vec![v[..h].to_vec(), v[h..].to_vec()]
                }
            };
            if let Some(nbig) = big {
                // 17..24 distinct records at the requested distances, closest first, in five packets
                let mut v: Vec<discv5::Enr> = matching.clone();
                v.sort_by_key(|e| ids::xor(&e.node_id().raw(), &target));
                v.truncate(nbig);
                if v.len() > 16 {
                    let per = v.len().div_ceil(5);
                    packets = v.chunks(per).map(|c| c.to_vec()).collect();
                    big_answers += 1;
                }
            }
            let total = packets.len() as u64;
            for nodes in packets.drain(..) {
                for e in &nodes {
                    let eid = e.node_id().raw();
                    if !learned.contains_key(&eid) && learned.keys().any(|l| ids::xor(l, &target) > ids::xor(&eid, &target)) {
                        closer_learnt_later = true;
                    }
                    learned.entry(eid).or_insert_with(|| e.clone());
                }
                q.inject(HandlerOut::Response(na.clone(), Box::new(Response { id: id.clone(), body: ResponseBody::Nodes { total, nodes } }))).await;
            }
            in_flight -= 1;
            answered.insert(rid);
        }
    }
    if !handle.is_finished() {
        q.settle().await;
    }
    let mut timed_out = false;
    if !handle.is_finished() && held_here && c.let_time_out {
        timed_out = true;
        // the lookup runs into its own time-out and hands over what it has
        // (the lookup's time-out is measured on the machine's clock, not on tokio's: these cases are
        // configured with a 40 ms time-out - see run_lookup - and really wait)
        std::thread::sleep(std::time::Duration::from_millis(45));
        // (the service looks at its lookups when something wakes it: a failure report for a request
        // it does not know does that and nothing else)
        q.inject(HandlerOut::RequestFailed(RequestId(vec![0xee; 8]), RequestError::Timeout)).await;
        for _ in 0..3 {
            q.settle().await;
        }
    }
    if !handle.is_finished() {
        if held_here {
            // requests without an outcome: the lookup may legitimately still be waiting for them
            handle.abort();
            return Ok(Driven { timed_out: false, finished: false, results: 0, closer_learnt_later, held_any: true });
        }
        return Err(("lookup/not-finished-although-every-request-got-an-outcome".into(), format!("every FINDNODE of the {which} lookup was answered or failed, nothing is outstanding, and the lookup future is still pending")));
    }
    let res = match handle.await {
        Ok(Ok(v)) => v,
        Ok(Err(e)) => return Err(("lookup/error".into(), format!("find_node returned {e:?}"))),
        Err(e) => return Err((format!("panic-in-task/{e}"), "the lookup task panicked".into())),
    };
    if let Some(p) = crate::runner::take_panic() {
        return Err((format!("panic-in-task/{}", p.split(':').take(2).collect::<Vec<_>>().join(":")), p));
    }
    // ---- the result as the caller sees it
    let ids_out: Vec<ids::Id> = res.iter().map(|e| e.node_id().raw()).collect();
    if ids_out.len() > k {
        return Err(("lookup/too-many-results".into(), format!("{} nodes returned by the {which} lookup, k = {k}", ids_out.len())));
    }
    let set: HashSet<ids::Id> = ids_out.iter().copied().collect();
    if set.len() != ids_out.len() {
        return Err(("lookup/duplicate-in-result".into(), "a node id occurs twice in the lookup result".into()));
    }
    for w in ids_out.windows(2) {
        if ids::xor(&w[0], &target) >= ids::xor(&w[1], &target) {
            return Err((
                "lookup/result-not-in-increasing-distance".into(),
                format!("the result of the {which} lookup lists {} before {} although the latter is closer to the target ({} results)", ids::hex_id(&w[0]), ids::hex_id(&w[1]), ids_out.len()),
            ));
        }
    }
    for i in &ids_out {
        if !answered.contains(i) {
            return Err(("lookup/result-node-never-answered".into(), format!("{} is in the result of the {which} lookup but never answered a FINDNODE of that lookup", ids::hex_id(i))));
        }
    }
    if c.predicate {
        for e in &res {
            if !odd_port(e) {
                return Err(("lookup/result-fails-predicate".into(), format!("{} is in the result of a predicate lookup but its record does not satisfy the predicate", e.node_id())));
            }
        }
    }
    // (with the 40 ms time-out of the let_time_out cases a lookup may legitimately end early at any point)
    if ids_out.len() < k && !held_here && !c.let_time_out {
        for l in learned.keys() {
            if !contacted.contains(l) {
                return Err((
                    "lookup/incomplete-without-contacting-all".into(),
                    format!("{} nodes returned by the {which} lookup (k = {k}), no timeout, and candidate {} was never contacted", ids_out.len(), ids::hex_id(l)),
                ));
            }
        }
    }
    let _ = (removed_candidate, big_answers, partial_answers);
    Ok(Driven { timed_out, finished: true, results: ids_out.len(), closer_learnt_later, held_any: held_here })
}

async fn run_zero_results(q: &mut Svc, target: ids::Id, rep: &mut CaseReport) -> Option<(String, String)> {
    let handle = tokio::spawn(q.d.find_node_predicate(ids::node_id(&target), Box::new(odd_port), 0));
    for _ in 0..6 {
        q.settle().await;
        if handle.is_finished() {
            break;
        }
    }
    if !handle.is_finished() {
        handle.abort();
        return Some(("lookup/not-finished-although-every-request-got-an-outcome".into(), "a predicate lookup asking for 0 results has nothing to wait for, and its future is still pending".into()));
    }
    rep.class("lookup/predicate-lookup-for-zero-results");
    match handle.await {
        Ok(Ok(v)) if v.is_empty() => None,
        Ok(Ok(v)) => Some(("lookup/too-many-results".into(), format!("{} nodes returned by a predicate lookup that asked for 0", v.len()))),
        Ok(Err(e)) => Some(("lookup/error".into(), format!("find_node_predicate(.., 0) returned {e:?} instead of an empty result"))),
        Err(e) => Some((format!("panic-in-task/{e}"), "the lookup task panicked".into())),
    }
}

async fn run_lookup(c: &LookupCase, rep: &mut CaseReport) -> Option<(String, String)> {
    reset_globals();
    let mnr = [None, Some(4usize), Some(8), Some(24), Some(64)][c.max_nodes as usize % 5];
    LOOKUP_DUAL.with(|d| d.set(c.dual));
    let mut q = Svc::new(SvcConfig { key_idx: 0, max_nodes_response: mnr, mode: if c.dual { Mode::Dual } else { Mode::Ip4 }, query_parallelism: if c.parallelism == 0 { None } else { Some(c.parallelism.min(2) as usize) }, query_timeout: if c.let_time_out { Some(std::time::Duration::from_millis(40)) } else { None }, ..Default::default() }).await;
    if c.parallelism != 0 {
        rep.class(format!("lookup/configured-parallelism-{}", c.parallelism.min(2)));
    }
    if c.dual {
        rep.class("lookup/dual-stack-service-and-records");
    }
    if let Some(m) = mnr {
        rep.class(format!("lookup/service-configured-with-max_nodes_response-{m}"));
    }
    let target = lrec(c.target as u32 + 7).node_id().raw();
    for k in c.known.iter().take(10) {
        let e = lrec(*k as u32);
        if e.node_id().raw() != target {
            let _ = q.d.add_enr(e);
        }
    }
    if c.target_known {
        let _ = q.d.add_enr(lrec(c.target as u32 + 7));
        rep.class("lookup/target-is-a-known-peer");
    }
    if c.zero_results {
        if let Some(v) = run_zero_results(&mut q, target, rep).await {
            return Some(v);
        }
    }
    let mut n_req = 0usize;
    let mut held: Vec<Held> = Vec::new();
    let first = match drive(&mut q, c, target, &mut n_req, &mut held, vec![], "first").await {
        Ok(d) => d,
        Err(v) => return Some(v),
    };
    rep.class(if c.predicate { "lookup-through-the-service/predicate" } else { "lookup-through-the-service" });
    if c.predicate && c.num > 0 && (c.num as usize) < q.d.table_entries_id().len() {
        rep.class("lookup/more-table-entries-than-results-asked-for");
    }
    rep.count("lookup_results", first.results as u64);
    if first.results >= 2 && first.closer_learnt_later {
        rep.class("lookup/closer-node-learnt-after-a-farther-one");
        rep.nontrivial = true;
    }
    if first.results == 16 {
        rep.class("lookup/k-results");
    }
    if first.timed_out && first.finished {
        rep.class("lookup/ended-by-its-own-time-out-with-requests-outstanding");
        rep.nontrivial = true;
    }
    if let Some(t2) = c.second {
        if first.finished {
            let target2 = lrec(t2 as u32 + 3).node_id().raw();
            let late: Vec<Held> = std::mem::take(&mut held);
            let had_late = !late.is_empty();
            match drive(&mut q, c, target2, &mut n_req, &mut held, late, "second").await {
                Ok(d) => {
                    rep.class("lookup/second-lookup-on-the-same-service");
                    if had_late {
                        rep.class("lookup/late-answers-of-the-first-lookup-arrive-during-the-second");
                        rep.nontrivial = true;
                    }
                    rep.count("lookup_results", d.results as u64);
                }
                Err(v) => return Some(v),
            }
        } else if first.held_any {
            rep.class("lookup/first-lookup-still-waiting-for-held-requests");
        }
    }
    rep.count("lookup_findnodes", n_req as u64);
    q.d.shutdown();
    None
}

fn lookup_strategy() -> BoxedStrategy<LookupCase> {
    let picks = || proptest::collection::vec(any::<u16>(), 0..5);
    let ans = prop_oneof![
        8 => (picks(), any::<bool>()).prop_map(|(picks, farthest_first)| Ans::Nodes { picks, farthest_first }),
        2 => picks().prop_map(|picks| Ans::NodesTwoPackets { picks }),
        1 => Just(Ans::Empty),
        2 => picks().prop_map(|picks| Ans::PartialThenFail { picks }),
        2 => Just(Ans::Fail),
        2 => Just(Ans::Hold),
    ];
    (
        any::<u16>(),
        proptest::collection::vec(any::<u16>(), 1..10),
        proptest::collection::vec(ans, 1..12),
        prop_oneof![1 => Just(false), 1 => Just(true)],
        prop_oneof![1 => Just(0u8), 3 => 1u8..5],
        proptest::option::weighted(0.5, any::<u16>()),
        prop_oneof![3 => Just(0u8), 2 => Just(1u8), 1 => Just(2u8), 1 => Just(3u8), 1 => Just(4u8)],
        prop_oneof![3 => Just(false), 1 => Just(true)],
        proptest::option::weighted(0.25, any::<u16>()),
        prop_oneof![3 => Just(false), 1 => Just(true)],
        (prop_oneof![2 => Just(0u8), 1 => Just(1u8), 1 => Just(2u8)], prop_oneof![5 => Just(false), 1 => Just(true)], prop_oneof![2 => Just(0u8), 1 => 1u8..=8], prop_oneof![3 => Just(false), 1 => Just(true)]),
    )
        .prop_map(|(target, known, script, predicate, num, second, max_nodes, target_known, remove_during, dual, (parallelism, zero_results, big_first_answer, let_time_out))| {
            let mut script = script;
            if big_first_answer > 0 && max_nodes >= 3 && !predicate {
                // after the big answer most requests fail: the result stays short and every candidate counts
                script = vec![Ans::Empty, Ans::Fail, Ans::Fail, Ans::Fail, Ans::Fail, Ans::Fail, Ans::Fail, Ans::Fail, Ans::Fail, Ans::Fail, Ans::Fail, Ans::Fail, Ans::Fail, Ans::Fail, Ans::Fail, Ans::Fail, Ans::Fail, Ans::Fail, Ans::Fail, Ans::Fail, Ans::Fail, Ans::Fail, Ans::Fail, Ans::Fail, Ans::Fail, Ans::Fail];
            }
            LookupCase { target, known, script, predicate, num, second, max_nodes, target_known, remove_during, dual, parallelism, zero_results, big_first_answer, let_time_out }
        })
        .boxed()
}

impl Property for C10 {
    type Case = Case;
    const ID: &'static str = "C10";
    fn cases(tier: Tier) -> u64 {
        tier.pick(200_000, 4_000_000)
    }
    fn strategy(tier: Tier) -> BoxedStrategy<Case> {
        prop_oneof![
            40 => qcase_strategy(tier.pick(80usize, 160usize)).prop_map(Case::Machine),
            3 => lookup_strategy().prop_map(Case::Lookup),
        ]
        .boxed()
    }
    fn run(case: &Case) -> CaseReport {
        let case = match case {
            Case::Machine(c) => c,
            Case::Lookup(l) => {
                let mut rep = CaseReport::default();
                if let Some((s, d)) = run_blocking(run_lookup(l, &mut rep)) {
                    rep.fail(s, d);
                }
                return rep;
            }
        };
        let out = run_query_case(case, false, true);
        let mut rep = machine_report(case, false, true);
        let s = out.stats;
        let k = case.num_results as usize;
        let short_with_failure = s.result_len < k && s.failures > 0 && s.result_len > 0;
        let full_from_more = s.result_len == k && s.successes as usize > k;
        rep.nontrivial = short_with_failure || full_from_more;
        if short_with_failure {
            rep.class("short-result-with-failures");
        }
        if full_from_more {
            rep.class("k-results-from->k-successes");
        }
        if s.result_len == 0 {
            rep.class("empty-result");
        }
        rep
    }
    fn rule() -> String {
        "the C09 machine histories (real FindNodeQuery / PredicateQuery, explicit clock, drain at the end); at the end into_result() is checked: R1 <= num_results ids, pairwise distinct, strictly increasing XOR distance (harness arithmetic); R2 every id was handed out by next() and a success was delivered for it while it was outstanding and before the finish; R3 (predicate variant) every id was reported (initial list or accepted success) with a value satisfying the predicate; R4 if fewer than num_results ids are returned every candidate (first num_results initial ids + ids inside accepted successes) was contacted. One case in 14 is a whole lookup through the public API (Discv5::find_node / find_node_predicate on a real service behind a scripted handler): 1..10 known peers (in a quarter of the cases the node whose id is the target is one of them), a pool of 240 signed records, every FINDNODE the lookup emits is answered per script with 0..4 records at the requested distances (sorted towards the target, farthest first, split over two packets, empty, or only the first of two announced packets followed by a failure of the request) or failed; requests may also be left without an outcome for the time being (in a quarter of the cases the service has a 40 ms lookup time-out - wall clock, the only real-time wait in the harness; no verdict depends on whether it fires - and a lookup with open requests is left to run into it: the result it hands over is checked like any other, except for completeness); the Vec<Enr> the caller gets back is checked for <= k distinct nodes in strictly increasing distance, every node having answered, predicate satisfied, and completeness when short (predicate lookups ask for 1..4 or 16 results, so the table may hold more entries than the lookup starts from); at no time more than max(parallelism = 3, k) FINDNODEs of a lookup are in flight; the service is IPv4-only or (a quarter of the cases) dual-stack with records advertising both families; its query_parallelism is the default 3 or 1 or 2; its max_nodes_response is the default or 4 / 8 / 24 / 64 (no answer is truncated by it; k stays 16); in a quarter of the cases the application removes a not yet contacted known peer from the routing table while the first requests are out (it remains a candidate); in half of the cases a second lookup runs on the same service afterwards, and the requests of the first lookup that were left open are answered while the second one is waiting. Non-trivial = result shorter than num_results with >=1 failure and >=1 result, or exactly num_results results out of more successes; (lookup) >= 2 results and a node closer to the target was learnt after a farther one.".into()
    }
    fn assumptions() -> Vec<String> {
        vec![
            "the candidate set is defined as documented: the first num_results of the supplied sequence plus ids returned inside accepted successes".into(),
            "cut-off by the pool's query timeout is exercised in C09 (pool cases); here every history runs to Finished".into(),
        ]
    }
}
