//! C10 - Query results are sound, ordered and complete (same histories as C09, result oracle).

use crate::{
    engines::query::*,
    props::c09::machine_report,
    runner::{CaseReport, Property, Tier},
};
use proptest::prelude::*;

pub struct C10;

impl Property for C10 {
    type Case = QCase;
    const ID: &'static str = "C10";
    fn cases(tier: Tier) -> u64 {
        tier.pick(40_000, 3_000_000)
    }
    fn strategy(tier: Tier) -> BoxedStrategy<QCase> {
        qcase_strategy(tier.pick(80usize, 160usize))
    }
    fn run(case: &QCase) -> CaseReport {
        let out = run_query_case(case, false, true);
        let mut rep = machine_report(case, false, true);
        let s = out.stats;
        let k = case.num_results as usize;
        let short_with_failure = s.result_len < k && s.failures > 0 && s.result_len > 0;
        let full_from_more = s.result_len == k && s.successes as usize > k;
        rep.nontrivial = short_with_failure || full_from_more;
        if short_with_failure {
            rep.class("short-result-with-failures");
        }
        if full_from_more {
            rep.class("k-results-from->k-successes");
        }
        if s.result_len == 0 {
            rep.class("empty-result");
        }
        rep
    }
    fn rule() -> String {
        "the C09 machine histories (real FindNodeQuery / PredicateQuery, explicit clock, drain at the end); at the end into_result() is checked: R1 <= num_results ids, pairwise distinct, strictly increasing XOR distance (harness arithmetic); R2 every id was handed out by next() and a success was delivered for it while it was outstanding and before the finish; R3 (predicate variant) every id was reported (initial list or accepted success) with a value satisfying the predicate; R4 if fewer than num_results ids are returned every candidate (first num_results initial ids + ids inside accepted successes) was contacted. Non-trivial = result shorter than num_results with >=1 failure and >=1 result, or exactly num_results results out of more successes.".into()
    }
    fn assumptions() -> Vec<String> {
        vec![
            "the candidate set is defined as documented: the first num_results of the supplied sequence plus ids returned inside accepted successes".into(),
            "cut-off by the pool's query timeout is exercised in C09 (pool cases); here every history runs to Finished".into(),
        ]
    }
}
