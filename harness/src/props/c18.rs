//! C18 - Inbound rate limiting and ban lists are enforced.
//! (a) the real `Limiter` (explicit time) against an exact integer token bucket + prune
//!     metamorphic relation + direct window bound; (b) the real `Filter` with the real global
//!     permit/ban list against order-independent ledger assertions B1..B5.

use crate::runner::{CaseReport, Property, Tier};
use discv5::{
    enr::NodeId,
    socket::{FilterConfig, RateLimiterBuilder},
    verif::PERMIT_BAN_LIST,
    NodeAddress,
};
use discv5::socket::verif::{Limiter, Quota, VFilter};
use proptest::prelude::*;
use serde::{Deserialize, Serialize};
use std::{
    collections::HashMap,
    net::{IpAddr, Ipv4Addr, SocketAddr},
    time::{Duration, Instant},
};

// ------------------------------------------------------------------------------------------
// (a) limiter
// ------------------------------------------------------------------------------------------

#[derive(Clone, Copy, Debug, PartialEq, Eq, Hash, Serialize, Deserialize)]
pub enum Gap {
    Zero,
    /// f/65536 of the replenish interval t
    BelowT(u16),
    TMinus1,
    ExactT,
    /// t + f/65536 of (n-1) t
    BetweenTAndFull(u16),
    Full,
    BeyondFull(u16),
}

#[derive(Clone, Copy, Debug, PartialEq, Eq, Hash, Serialize, Deserialize)]
pub enum LEv {
    Arrive { key: u8, gap: Gap, tokens: u8 },
    Prune,
    /// `n` further sources, each seen for the first time, send one datagram each at the current time
    /// (a table of far more keys than the usual handful)
    Crowd { n: u16 },
}

#[derive(Clone, Debug, PartialEq, Eq, Hash, Serialize, Deserialize)]
pub struct LimCase {
    pub n: u8,
    pub t_ns: u64,
    /// period = n * t_ns + extra (extra < n, only with period >= 1 ms)
    pub extra: u8,
    pub events: Vec<LEv>,
}

/// Exact integer token bucket: capacity `tau` ns of credit, +1 credit per ns, one token costs `t`.
struct RefBucket {
    tau: u128,
    t: u128,
    state: HashMap<u32, (u128, u128)>, // key -> (credit, last time)
}

impl RefBucket {
    fn allows(&mut self, now: u128, key: u32, tokens: u128) -> bool {
        let cost = self.t * tokens;
        if cost > self.tau {
            return false;
        }
        let (credit, last) = self.state.get(&key).copied().unwrap_or((self.tau, now));
        let credit = (credit + (now - last)).min(self.tau);
        if credit >= cost {
            self.state.insert(key, (credit - cost, now));
            true
        } else {
            self.state.insert(key, (credit, now));
            false
        }
    }
}

pub fn run_limiter(c: &LimCase) -> CaseReport {
    let mut rep = CaseReport::default();
    let n = c.n.max(1) as u64;
    let t = c.t_ns.max(1);
    let mut tau = n * t;
    if tau >= 1_000_000 && (c.extra as u64) < n {
        tau += c.extra as u64;
        if c.extra > 0 {
            rep.class("limiter-period-not-divisible");
        }
    }
    let quota = || Quota::verif_new(Duration::from_nanos(tau), n);
    let mut real: Limiter<u32> = match Limiter::from_quota(quota()) {
        Ok(l) => l,
        Err(e) => {
            rep.fail("limiter/constructor-rejected-valid-quota", format!("from_quota({n} per {tau} ns) failed: {e}"));
            return rep;
        }
    };
    let mut real_noprune: Limiter<u32> = Limiter::from_quota(quota()).expect("same quota");
    let t_eff = (tau / n) as u128;
    let mut model = RefBucket { tau: tau as u128, t: t_eff, state: HashMap::new() };
    let mut now: u64 = 0;
    let mut accepted: HashMap<u32, Vec<u64>> = HashMap::new();
    let mut single_token_only = true;
    let mut refused_then_accepted_with_prune = false;
    let mut refused: HashMap<u32, bool> = HashMap::new();
    let mut pruned_since_refusal: HashMap<u32, bool> = HashMap::new();
    // crowds are expanded into single arrivals of fresh keys
    let mut flat: Vec<(Option<(u32, Gap, u8)>, bool)> = Vec::new();
    let mut next_fresh: u32 = 1000;
    for ev in &c.events {
        match ev {
            LEv::Prune => flat.push((None, true)),
            LEv::Arrive { key, gap, tokens } => flat.push((Some((*key as u32, *gap, *tokens)), false)),
            LEv::Crowd { n } => {
                rep.class(if *n > 1024 { "limiter-crowd>1024-fresh-keys" } else { "limiter-crowd" });
                for _ in 0..*n {
                    flat.push((Some((next_fresh, Gap::Zero, 1)), false));
                    next_fresh += 1;
                }
            }
        }
    }
    for ev in &flat {
        match ev {
            (None, _) => {
                real.prune(Duration::from_nanos(now));
                for v in pruned_since_refusal.values_mut() {
                    *v = true;
                }
                rep.count("prunes", 1);
            }
            (Some((key, gap, tokens)), _) => {
                let g: u64 = match gap {
                    Gap::Zero => 0,
                    Gap::BelowT(f) => ((t as u128 * *f as u128) >> 16) as u64,
                    Gap::TMinus1 => t - 1,
                    Gap::ExactT => t,
                    Gap::BetweenTAndFull(f) => t + (((n - 1) as u128 * t as u128 * *f as u128) >> 16) as u64,
                    Gap::Full => tau,
                    Gap::BeyondFull(f) => tau + 1 + *f as u64,
                };
                now += g;
                let tokens = (*tokens).max(1) as u64;
                if tokens != 1 {
                    single_token_only = false;
                }
                let a = real.allows(Duration::from_nanos(now), key, tokens).is_ok();
                let b = real_noprune.allows(Duration::from_nanos(now), key, tokens).is_ok();
                let m = model.allows(now as u128, *key, tokens as u128);
                if a != b {
                    rep.fail(
                        "limiter/prune-changed-decision",
                        format!("at {now} ns key {key}: with prunes -> {a}, without prunes -> {b} (quota {n} per {tau} ns)"),
                    );
                    return rep;
                }
                if a && !m {
                    rep.fail(
                        "limiter/accepted-over-quota",
                        format!("at {now} ns key {key} tokens {tokens}: accepted although the exact token bucket ({n} per {tau} ns) is empty"),
                    );
                    return rep;
                }
                if !a && m {
                    rep.fail(
                        "limiter/refused-conforming-traffic",
                        format!("at {now} ns key {key} tokens {tokens}: refused although the exact token bucket ({n} per {tau} ns) has credit"),
                    );
                    return rep;
                }
                if a {
                    accepted.entry(*key).or_default().push(now);
                    if refused.get(key) == Some(&true) && pruned_since_refusal.get(key) == Some(&true) {
                        refused_then_accepted_with_prune = true;
                    }
                } else {
                    refused.insert(*key, true);
                    pruned_since_refusal.insert(*key, false);
                }
            }
        }
    }
    // direct window bound on accepted arrivals (single-token sequences): m*t <= tau + W
    if single_token_only {
        for (key, times) in &accepted {
            for i in 0..times.len() {
                for j in i..times.len() {
                    let m = (j - i + 1) as u128;
                    let w = (times[j] - times[i]) as u128;
                    if m * t_eff > tau as u128 + w {
                        rep.fail(
                            "limiter/window-bound-exceeded",
                            format!("key {key}: {m} datagrams accepted within {w} ns; burst {n}, one token per {t_eff} ns"),
                        );
                        return rep;
                    }
                }
            }
        }
    }
    rep.nontrivial = refused_then_accepted_with_prune;
    rep.class("limiter");
    rep
}

// ------------------------------------------------------------------------------------------
// (b) filter
// ------------------------------------------------------------------------------------------

#[derive(Clone, Copy, Debug, PartialEq, Eq, Hash, Serialize, Deserialize)]
pub enum FEv {
    Arrive { ip: u8, node: u8 },
    PermitIp { ip: u8, on: bool },
    BanIp { ip: u8, on: bool },
    PermitNode { node: u8, on: bool },
    BanNode { node: u8, on: bool },
    Prune,
}

#[derive(Clone, Debug, PartialEq, Eq, Hash, Serialize, Deserialize)]
pub struct FilCase {
    pub ip_burst: u8,
    pub node_burst: u8,
    pub total_burst: u8,
    pub ban_1h: bool,
    /// second class: max_nodes_per_ip / max_bans_per_ip enabled (only B1-B3, B5 asserted)
    pub per_ip_features: bool,
    pub events: Vec<FEv>,
    /// address family of the three source IPs: 0 IPv4, 1 native IPv6, 2 IPv4-mapped IPv6, 3 one of each
    #[serde(default)]
    pub ip_family: u8,
    /// the rate limiter is configured without a per-node quota (only total and per-IP): node ids are
    /// then not limited at all
    #[serde(default)]
    pub no_node_quota: bool,
}

thread_local! {
    static IP_FAMILY: std::cell::Cell<u8> = const { std::cell::Cell::new(0) };
}

fn ip_of(i: u8) -> IpAddr {
    let i = i % 3;
    let v4 = Ipv4Addr::new(10, 9, 0, 1 + i);
    let fam = match IP_FAMILY.with(|f| f.get()) % 4 {
        3 => i,
        f => f,
    };
    match fam {
        0 => IpAddr::V4(v4),
        1 => IpAddr::V6(std::net::Ipv6Addr::new(0x2001, 0xdb8, 0, 9, 0, 0, 0, 1 + i as u16)),
        _ => IpAddr::V6(v4.to_ipv6_mapped()),
    }
}

fn node_of(i: u8) -> NodeId {
    let mut b = [0xABu8; 32];
    b[31] = i % 4;
    b[0] = 0x40 + i % 4;
    NodeId::new(&b)
}

pub fn run_filter(c: &FilCase) -> CaseReport {
    let mut rep = CaseReport::default();
    IP_FAMILY.with(|f| f.set(c.ip_family));
    rep.class(match c.ip_family % 4 {
        0 => "filter-sources-ipv4",
        1 => "filter-sources-ipv6",
        2 => "filter-sources-ipv4-mapped-ipv6",
        _ => "filter-sources-mixed-families",
    });
    // reset the process-global lists (cases run sequentially inside one worker process)
    *PERMIT_BAN_LIST.write() = Default::default();
    let hour = Duration::from_secs(3600);
    let rl = if c.no_node_quota {
        rep.class("filter-without-a-node-quota");
        RateLimiterBuilder::new().total_n_every(c.total_burst.max(1) as u64, hour).ip_n_every(c.ip_burst.max(1) as u64, hour).build().expect("quota builds")
    } else {
        RateLimiterBuilder::new()
            .total_n_every(c.total_burst.max(1) as u64, hour)
            .ip_n_every(c.ip_burst.max(1) as u64, hour)
            .node_n_every(c.node_burst.max(1) as u64, hour)
            .build()
            .expect("quota builds")
    };
    let cfg = FilterConfig {
        enabled: true,
        rate_limiter: Some(rl),
        max_nodes_per_ip: if c.per_ip_features { Some(3) } else { None },
        max_bans_per_ip: if c.per_ip_features { Some(2) } else { None },
    };
    let ban_duration = if c.ban_1h { Some(hour) } else { None };
    let mut f = VFilter::new(cfg, ban_duration);
    let ipb = c.ip_burst.max(1) as u64;
    let nb = if c.no_node_quota { u64::MAX / 4 } else { c.node_burst.max(1) as u64 };
    let tb = c.total_burst.max(1) as u64;

    // ledger (order independent)
    let mut arrivals_total: u64 = 0; // non-permitted-ip arrivals that were not banned at arrival
    let mut arrivals_ip: HashMap<u8, u64> = HashMap::new();
    let mut arrivals_node: HashMap<u8, u64> = HashMap::new(); // stage-2 attempts of non-permitted, non-banned nodes
    let mut pass1_total: u64 = 0;
    let mut pass1_ip: HashMap<u8, u64> = HashMap::new();
    let mut pass2_node: HashMap<u8, u64> = HashMap::new();
    let mut filter_imposed_ban = false;
    let mut permit_overrode_ban = false;
    // the IPs somebody had a reason to ban: the application did, or the IP went over its own quota
    let mut ip_ban_earned: std::collections::HashSet<u8> = std::collections::HashSet::new();

    for ev in &c.events {
        match *ev {
            FEv::PermitIp { ip, on } => {
                let mut l = PERMIT_BAN_LIST.write();
                if on { l.permit_ips.insert(ip_of(ip)); } else { l.permit_ips.remove(&ip_of(ip)); }
            }
            FEv::BanIp { ip, on } => {
                let mut l = PERMIT_BAN_LIST.write();
                if on { l.ban_ips.insert(ip_of(ip), None); } else { l.ban_ips.remove(&ip_of(ip)); }
                // (ip_of maps the selector modulo 3, like the arrivals)
                if on { ip_ban_earned.insert(ip % 3); } else { ip_ban_earned.remove(&(ip % 3)); }
            }
            FEv::PermitNode { node, on } => {
                let mut l = PERMIT_BAN_LIST.write();
                if on { l.permit_nodes.insert(node_of(node)); } else { l.permit_nodes.remove(&node_of(node)); }
            }
            FEv::BanNode { node, on } => {
                let mut l = PERMIT_BAN_LIST.write();
                if on { l.ban_nodes.insert(node_of(node), None); } else { l.ban_nodes.remove(&node_of(node)); }
            }
            FEv::Prune => f.prune_limiter(),
            FEv::Arrive { ip, node } => {
                let ip = ip % 3;
                let node = node % 4;
                let src = SocketAddr::new(ip_of(ip), 30303);
                let (ip_permitted, ip_banned, node_permitted, node_banned) = {
                    let l = PERMIT_BAN_LIST.read();
                    (
                        l.permit_ips.contains(&ip_of(ip)),
                        l.ban_ips.contains_key(&ip_of(ip)),
                        l.permit_nodes.contains(&node_of(node)),
                        l.ban_nodes.contains_key(&node_of(node)),
                    )
                };
                let t0 = Instant::now();
                let p1 = f.initial_pass(&src);
                // ---- stage 1 assertions
                if ip_permitted && !p1 {
                    rep.fail("filter/B3-permitted-ip-dropped", format!("datagram from permitted IP {} dropped at the IP stage", ip_of(ip)));
                    return rep;
                }
                if ip_banned && !ip_permitted && p1 {
                    rep.fail("filter/B1-banned-ip-passed", format!("datagram from banned IP {} passed the IP stage", ip_of(ip)));
                    return rep;
                }
                if ip_permitted && ip_banned {
                    permit_overrode_ban = true;
                }
                // B4 (lower bound), the other way to refuse conforming traffic: a ban on an IP that
                // never went over its quota and that the application never banned (without the
                // per-IP escalation features nothing else bans an IP)
                if !c.per_ip_features && ip_banned && !ip_permitted && !p1 && !ip_ban_earned.contains(&ip) {
                    rep.fail(
                        "filter/B4-conforming-datagram-refused-ip-stage/ip-banned-without-exceeding-its-quota",
                        format!("datagram from {} refused: the IP is in the ban list although it saw {} arrivals (ip burst {ipb}) and the application never banned it", ip_of(ip), arrivals_ip.get(&ip).copied().unwrap_or(0)),
                    );
                    return rep;
                }
                if !ip_permitted && !ip_banned {
                    let ai = arrivals_ip.entry(ip).or_insert(0);
                    let before_ip = *ai;
                    let before_total = arrivals_total;
                    *ai += 1;
                    arrivals_total += 1;
                    if p1 {
                        pass1_total += 1;
                        *pass1_ip.entry(ip).or_insert(0) += 1;
                    }
                    {
                        // B4 (lower bound): every applicable counter still within its burst -> passes
                        if before_ip < ipb && before_total < tb && !p1 {
                            rep.fail(
                                "filter/B4-conforming-datagram-refused-ip-stage",
                                format!("datagram #{} from {} (ip burst {ipb}) and #{} overall (total burst {tb}) was refused at the IP stage", before_ip + 1, ip_of(ip), before_total + 1),
                            );
                            return rep;
                        }
                    }
                    // upper bounds
                    if pass1_ip.get(&ip).copied().unwrap_or(0) > ipb {
                        rep.fail("filter/B4-ip-burst-exceeded", format!("{} datagrams from {} passed the IP stage, burst {ipb}", pass1_ip.get(&ip).copied().unwrap_or(0), ip_of(ip)));
                        return rep;
                    }
                    if pass1_total > tb {
                        rep.fail("filter/B4-total-burst-exceeded", format!("{pass1_total} datagrams passed the IP stage, total burst {tb}"));
                        return rep;
                    }
                    // B5: the arrival that exceeds the per-IP burst leaves the IP banned
                    if before_ip >= ipb {
                        ip_ban_earned.insert(ip);
                        if p1 {
                            rep.fail("filter/B4-ip-burst-exceeded", format!("datagram #{} from {} passed, burst {ipb}", before_ip + 1, ip_of(ip)));
                            return rep;
                        }
                        let l = PERMIT_BAN_LIST.read();
                        match l.ban_ips.get(&ip_of(ip)) {
                            None => {
                                rep.fail("filter/B5-ip-not-banned-after-exceeding-quota", format!("{} exceeded its burst of {ipb} but is not in the ban list", ip_of(ip)));
                                return rep;
                            }
                            Some(exp) => {
                                filter_imposed_ban = true;
                                match (exp, ban_duration) {
                                    (None, _) => {}
                                    (Some(e), Some(d)) => {
                                        if *e < t0 + d {
                                            rep.fail("filter/B5-ban-shorter-than-configured", format!("IP ban expires before now + ban_duration ({d:?})"));
                                            return rep;
                                        }
                                    }
                                    (Some(_), None) => {
                                        rep.fail("filter/B5-ban-shorter-than-configured", "IP ban has an expiry although bans are configured to be permanent".to_string());
                                        return rep;
                                    }
                                }
                            }
                        }
                    }
                }
                if !p1 {
                    continue;
                }
                // ---- stage 2
                let addr = NodeAddress::new(src, node_of(node));
                let t1 = Instant::now();
                let p2 = f.final_pass(&addr);
                if node_permitted && !p2 {
                    rep.fail("filter/B3-permitted-node-dropped", format!("datagram from permitted node {node} dropped at the node stage"));
                    return rep;
                }
                if node_banned && !node_permitted && p2 {
                    rep.fail("filter/B2-banned-node-passed", format!("datagram from banned node {node} passed the node stage"));
                    return rep;
                }
                if node_permitted && node_banned {
                    permit_overrode_ban = true;
                }
                if !node_permitted && !node_banned {
                    let an = arrivals_node.entry(node).or_insert(0);
                    let before = *an;
                    *an += 1;
                    if p2 {
                        *pass2_node.entry(node).or_insert(0) += 1;
                    }
                    if !c.per_ip_features {
                        if before < nb && !p2 {
                            rep.fail(
                                "filter/B4-conforming-datagram-refused-node-stage",
                                format!("datagram #{} of node {node} (node burst {nb}) was refused at the node stage", before + 1),
                            );
                            return rep;
                        }
                    }
                    if pass2_node.get(&node).copied().unwrap_or(0) > nb {
                        rep.fail("filter/B4-node-burst-exceeded", format!("{} datagrams of node {node} passed, burst {nb}", pass2_node[&node]));
                        return rep;
                    }
                    if before >= nb {
                        if p2 {
                            rep.fail("filter/B4-node-burst-exceeded", format!("datagram #{} of node {node} passed, burst {nb}", before + 1));
                            return rep;
                        }
                        let l = PERMIT_BAN_LIST.read();
                        match l.ban_nodes.get(&node_of(node)) {
                            None => {
                                rep.fail("filter/B5-node-not-banned-after-exceeding-quota", format!("node {node} exceeded its burst of {nb} but is not in the ban list"));
                                return rep;
                            }
                            Some(exp) => {
                                filter_imposed_ban = true;
                                match (exp, ban_duration) {
                                    (None, _) => {}
                                    (Some(e), Some(d)) => {
                                        if *e < t1 + d {
                                            rep.fail("filter/B5-ban-shorter-than-configured", format!("node ban expires before now + ban_duration ({d:?})"));
                                            return rep;
                                        }
                                    }
                                    (Some(_), None) => {
                                        rep.fail("filter/B5-ban-shorter-than-configured", "node ban has an expiry although bans are configured to be permanent".to_string());
                                        return rep;
                                    }
                                }
                            }
                        }
                    }
                }
            }
        }
    }
    *PERMIT_BAN_LIST.write() = Default::default();
    rep.nontrivial = filter_imposed_ban && permit_overrode_ban;
    if filter_imposed_ban {
        rep.class("filter-imposed-ban");
    }
    if permit_overrode_ban {
        rep.class("permit-overrode-ban");
    }
    rep.class(if c.per_ip_features { "filter-with-per-ip-features" } else { "filter-main-class" });
    rep
}

// ------------------------------------------------------------------------------------------

#[derive(Clone, Debug, PartialEq, Eq, Hash, Serialize, Deserialize)]
pub enum Case {
    Limiter(LimCase),
    Filter(FilCase),
    /// the filter as wired into the receive task (real `RecvHandler::handle_inbound` behind a
    /// channel): datagrams of every packet kind, exemptions, permit/ban entries
    Recv(RecvCase),
    /// timed and permanent bans while a handler runs (its periodic un-ban check fires in virtual time)
    Unban(UnbanCase),
}

#[derive(Clone, Debug, PartialEq, Eq, Hash, Serialize, Deserialize)]
pub struct UnbanCase {
    /// (is_node, index, seconds until the ban ends; 0 = permanent)
    pub bans: Vec<(bool, u8, u16)>,
    /// how many 5-minute check periods of virtual time pass
    pub periods: u8,
}

pub fn run_unban(c: &UnbanCase) -> CaseReport {
    use crate::engines::wire::{AppMode, Know, WireConfig, World};
    let mut rep = CaseReport::default();
    let rt = tokio::runtime::Builder::new_current_thread().enable_all().start_paused(true).build().expect("runtime");
    rt.block_on(async {
        IP_FAMILY.with(|f| f.set(0));
        *PERMIT_BAN_LIST.write() = Default::default();
        let cfg = WireConfig {
            n_peers: 1,
            retries: 1,
            filter: true,
            wru_mode: vec![AppMode::Immediate; 4],
            wru_know: vec![Know::Current; 4],
            resp_mode: vec![AppMode::Immediate; 4],
            nodes_packets: 1,
            seqs: vec![1; 4],
            nat_peers: vec![],
            nat_kind: 0,
            dual_records: false,
            foreign_enr_answer: vec![],
            v_session_timeout_ms: None,
            v_session_capacity: None,
            v_dual_listen: false,
        };
        let mut w = World::new(cfg).await;
        let t0 = Instant::now();
        let mut entries: Vec<(bool, u8, Option<Instant>)> = Vec::new();
        {
            let mut l = PERMIT_BAN_LIST.write();
            for (is_node, i, secs) in c.bans.iter().take(8) {
                let until = if *secs == 0 { None } else { Some(t0 + Duration::from_secs(*secs as u64)) };
                if *is_node {
                    l.ban_nodes.insert(node_of(*i), until);
                } else {
                    l.ban_ips.insert(ip_of(*i), until);
                }
                entries.retain(|(n, j, _)| !(*n == *is_node && (if *is_node { node_of(*j) == node_of(*i) } else { ip_of(*j) == ip_of(*i) })));
                entries.push((*is_node, *i, until));
            }
        }
        rep.class("unban-check");
        for _ in 0..c.periods.clamp(1, 3) {
            tokio::time::sleep(Duration::from_secs(301)).await;
            w.settle().await;
            let now = Instant::now();
            let l = PERMIT_BAN_LIST.read();
            for (is_node, i, until) in &entries {
                // a ban that has certainly not run out (real clock) must still be in force
                let still_due = until.map(|u| u > now + Duration::from_secs(1)).unwrap_or(true);
                if !still_due {
                    continue;
                }
                let present = if *is_node { l.ban_nodes.contains_key(&node_of(*i)) } else { l.ban_ips.contains_key(&ip_of(*i)) };
                if !present {
                    rep.fail(
                        "filter/B5-ban-lifted-before-its-end",
                        format!(
                            "a ban of {} {} with {} was lifted by the running handler {:?} after it was imposed",
                            if *is_node { "node id" } else { "IP" },
                            i,
                            until.map(|u| format!("{:?} to run", u - t0)).unwrap_or("no end".into()),
                            t0.elapsed()
                        ),
                    );
                    return;
                }
                if until.is_some() {
                    rep.nontrivial = true;
                }
            }
        }
        drop(w);
        *PERMIT_BAN_LIST.write() = Default::default();
    });
    drop(rt);
    if let Some(p) = crate::runner::take_panic() {
        rep.fail(format!("panic-in-task/{}", p.split(':').take(2).collect::<Vec<_>>().join(":")), p);
    }
    rep
}

#[derive(Clone, Copy, Debug, PartialEq, Eq, Hash, Serialize, Deserialize)]
pub enum REv {
    /// a well-formed datagram of kind 0 message / 1 handshake / 2 WHOAREYOU / 3 undecodable bytes
    Arrive { ip: u8, node: u8, kind: u8 },
    /// the handler expects (or no longer expects) a response from that source: exemption on / off
    Expect { ip: u8, on: bool },
    /// the node awaits something from ANOTHER port of that IP (an exemption for ip:30304; the judged
    /// datagrams come from ip:30303 and are not covered by it)
    ExpectOtherPort { ip: u8, on: bool },
    PermitIp { ip: u8, on: bool },
    BanIp { ip: u8, on: bool },
    PermitNode { node: u8, on: bool },
    BanNode { node: u8, on: bool },
    /// 30 s of virtual time: the receive task prunes its limiter
    PruneTick,
}

#[derive(Clone, Debug, PartialEq, Eq, Hash, Serialize, Deserialize)]
pub struct RecvCase {
    pub ip_burst: u8,
    pub node_burst: u8,
    pub total_burst: u8,
    pub ip_family: u8,
    pub events: Vec<REv>,
}

async fn run_recv_async(c: &RecvCase, rep: &mut CaseReport) {
    use discv5::socket::verif::{VDelivered, VRecv};
    use discv5::verif::{packet_encode, VPacket};
    use discv5::packet::{PacketKind, ProtocolIdentity};
    IP_FAMILY.with(|f| f.set(c.ip_family));
    *PERMIT_BAN_LIST.write() = Default::default();
    let hour = Duration::from_secs(3600);
    let (ipb, nb, tb) = (c.ip_burst.max(1) as u64, c.node_burst.max(1) as u64, c.total_burst.max(1) as u64);
    let rl = RateLimiterBuilder::new().total_n_every(tb, hour).ip_n_every(ipb, hour).node_n_every(nb, hour).build().expect("quota builds");
    let cfg = FilterConfig { enabled: true, rate_limiter: Some(rl), max_nodes_per_ip: None, max_bans_per_ip: None };
    let local = NodeId::new(&[0x77u8; 32]);
    let Ok(mut r) = VRecv::spawn(cfg, Some(hour), local).await else {
        rep.fail("HARNESS/vrecv-spawn", "could not start the receive task".to_string());
        return;
    };
    rep.class("receive-path");
    let settle = || async {
        for _ in 0..3 {
            tokio::time::sleep(Duration::from_millis(1)).await;
        }
    };
    let mut arrivals_ip: HashMap<u8, u64> = HashMap::new();
    let mut arrivals_node: HashMap<u8, u64> = HashMap::new();
    let mut arrivals_total = 0u64;
    let mut delivered_ip: HashMap<u8, u64> = HashMap::new();
    let mut delivered_node: HashMap<u8, u64> = HashMap::new();
    let mut delivered_total = 0u64;
    let mut handshake_judged = false;
    for (idx, ev) in c.events.iter().enumerate() {
        match *ev {
            REv::PermitIp { ip, on } => {
                let mut l = PERMIT_BAN_LIST.write();
                if on { l.permit_ips.insert(ip_of(ip)); } else { l.permit_ips.remove(&ip_of(ip)); }
            }
            REv::BanIp { ip, on } => {
                let mut l = PERMIT_BAN_LIST.write();
                if on { l.ban_ips.insert(ip_of(ip), None); } else { l.ban_ips.remove(&ip_of(ip)); }
            }
            REv::PermitNode { node, on } => {
                let mut l = PERMIT_BAN_LIST.write();
                if on { l.permit_nodes.insert(node_of(node)); } else { l.permit_nodes.remove(&node_of(node)); }
            }
            REv::BanNode { node, on } => {
                let mut l = PERMIT_BAN_LIST.write();
                if on { l.ban_nodes.insert(node_of(node), None); } else { l.ban_nodes.remove(&node_of(node)); }
            }
            REv::Expect { ip, on } => {
                let src = SocketAddr::new(ip_of(ip), 30303);
                let mut m = r.expected_responses.write();
                if on { m.insert(src, 1); } else { m.remove(&src); }
            }
            REv::ExpectOtherPort { ip, on } => {
                let other = SocketAddr::new(ip_of(ip), 30304);
                let mut m = r.expected_responses.write();
                if on { m.insert(other, 1); } else { m.remove(&other); }
                rep.class("receive-path/exemption-for-another-port-of-a-source-ip");
            }
            REv::PruneTick => {
                tokio::time::sleep(Duration::from_secs(30)).await;
                settle().await;
            }
            REv::Arrive { ip, node, kind } => {
                let (ip, node, kind) = (ip % 3, node % 4, kind % 4);
                let src = SocketAddr::new(ip_of(ip), 30303);
                let mut nonce = [0u8; 12];
                nonce[..8].copy_from_slice(&(idx as u64 + 1).to_be_bytes());
                let has_src_id = kind == 0 || kind == 1;
                let bytes = match kind {
                    3 => vec![0xA5u8; 70 + idx % 500],
                    k => {
                        let pk = match k {
                            0 => PacketKind::Message { src_id: node_of(node) },
                            1 => PacketKind::Handshake { src_id: node_of(node), id_nonce_sig: vec![7u8; 64], ephem_pubkey: vec![2u8; 33], enr_record: None },
                            _ => PacketKind::WhoAreYou { id_nonce: [9u8; 16], enr_seq: 1 },
                        };
                        let message = if k == 2 { vec![] } else { vec![0x5Au8; 20 + idx % 40] };
                        packet_encode(VPacket { iv: idx as u128 + 1, message_nonce: nonce, protocol_identity: ProtocolIdentity::default(), kind: pk, message }, &local)
                    }
                };
                let len = bytes.len();
                let (ip_permitted, ip_banned, node_permitted, node_banned, exempt) = {
                    let l = PERMIT_BAN_LIST.read();
                    (
                        l.permit_ips.contains(&ip_of(ip)),
                        l.ban_ips.contains_key(&ip_of(ip)),
                        l.permit_nodes.contains(&node_of(node)),
                        l.ban_nodes.contains_key(&node_of(node)),
                        r.expected_responses.read().contains_key(&src),
                    )
                };
                let _ = r.inbound.send((src, bytes));
                settle().await;
                let out = r.take_delivered();
                let delivered = out.iter().any(|d| match d {
                    VDelivered::Packet { src_address, message_nonce, .. } => *src_address == src && *message_nonce == nonce && kind != 3,
                    VDelivered::Unrecognized { src_address, len: l } => *src_address == src && *l == len && kind == 3,
                });
                if out.len() > 1 {
                    rep.fail("recv/more-than-one-output-for-one-datagram", format!("{} outputs for one datagram", out.len()));
                    return;
                }
                let what = ["message", "handshake", "WHOAREYOU", "undecodable"][kind as usize];
                if exempt {
                    rep.class("receive-path/datagram-from-exempt-source");
                    continue; // solicited: outside this property (C13 / C04)
                }
                // R1 / R2: bans
                if ip_banned && !ip_permitted && delivered {
                    rep.fail("recv/R1-datagram-from-banned-ip-handed-on", format!("unsolicited {what} datagram from banned IP {} was handed to the handler", ip_of(ip)));
                    return;
                }
                if has_src_id && node_banned && !node_permitted && delivered {
                    rep.fail("recv/R2-datagram-from-banned-node-handed-on", format!("unsolicited {what} datagram from banned node id {node} was handed to the handler"));
                    return;
                }
                if kind == 1 && (node_banned && !node_permitted || arrivals_node.get(&node).copied().unwrap_or(0) >= nb) {
                    handshake_judged = true;
                }
                // ledger
                let counted_ip = !ip_permitted && !ip_banned;
                let before_ip = arrivals_ip.get(&ip).copied().unwrap_or(0);
                let before_total = arrivals_total;
                let before_node = arrivals_node.get(&node).copied().unwrap_or(0);
                if counted_ip {
                    *arrivals_ip.entry(ip).or_insert(0) += 1;
                    arrivals_total += 1;
                    if delivered {
                        *delivered_ip.entry(ip).or_insert(0) += 1;
                        delivered_total += 1;
                    }
                    if delivered_ip.get(&ip).copied().unwrap_or(0) > ipb {
                        rep.fail("recv/R4-ip-burst-exceeded", format!("{} unsolicited datagrams from {} were handed on, burst {ipb} per hour", delivered_ip[&ip], ip_of(ip)));
                        return;
                    }
                    if delivered_total > tb {
                        rep.fail("recv/R4-total-burst-exceeded", format!("{delivered_total} unsolicited datagrams were handed on, total burst {tb} per hour"));
                        return;
                    }
                }
                let counted_node = has_src_id && !node_permitted && !node_banned && (ip_permitted || !ip_banned);
                if counted_node {
                    *arrivals_node.entry(node).or_insert(0) += 1;
                    if delivered {
                        *delivered_node.entry(node).or_insert(0) += 1;
                    }
                    if delivered_node.get(&node).copied().unwrap_or(0) > nb {
                        rep.fail(
                            "recv/R3-node-burst-exceeded",
                            format!("{} unsolicited datagrams of node id {node} were handed on (the last one a {what} packet), burst {nb} per hour", delivered_node[&node]),
                        );
                        return;
                    }
                }
                // R5: conforming traffic is never refused
                let ip_ok = ip_permitted || (!ip_banned && before_ip < ipb && before_total < tb);
                let node_ok = !has_src_id || node_permitted || (!node_banned && before_node < nb);
                if ip_ok && node_ok && !delivered {
                    rep.fail(
                        "recv/R5-conforming-datagram-refused",
                        format!("unsolicited {what} datagram #{} from {} (ip burst {ipb}, #{} overall of {tb}, #{} of node {node} of {nb}) was not handed on", before_ip + 1, ip_of(ip), before_total + 1, before_node + 1),
                    );
                    return;
                }
            }
        }
    }
    if handshake_judged {
        rep.class("receive-path/handshake-packet-from-banned-or-over-quota-node");
        rep.nontrivial = true;
    }
    *PERMIT_BAN_LIST.write() = Default::default();
}

pub fn run_recv(c: &RecvCase) -> CaseReport {
    let mut rep = CaseReport::default();
    let rt = tokio::runtime::Builder::new_current_thread().enable_all().start_paused(true).build().expect("runtime");
    rt.block_on(run_recv_async(c, &mut rep));
    drop(rt);
    if let Some(p) = crate::runner::take_panic() {
        rep.fail(format!("panic-in-task/{}", p.split(':').take(2).collect::<Vec<_>>().join(":")), p);
    }
    rep
}

fn recv_strategy(max: usize) -> BoxedStrategy<RecvCase> {
    let ev = prop_oneof![
        24 => (0u8..3, 0u8..4, prop_oneof![4 => Just(0u8), 4 => Just(1u8), 1 => Just(2u8), 1 => Just(3u8)]).prop_map(|(ip, node, kind)| REv::Arrive { ip, node, kind }),
        2 => (0u8..3, any::<bool>()).prop_map(|(ip, on)| REv::Expect { ip, on }),
        2 => (0u8..3, prop_oneof![3 => Just(true), 1 => Just(false)]).prop_map(|(ip, on)| REv::ExpectOtherPort { ip, on }),
        1 => (0u8..3, any::<bool>()).prop_map(|(ip, on)| REv::PermitIp { ip, on }),
        1 => (0u8..3, any::<bool>()).prop_map(|(ip, on)| REv::BanIp { ip, on }),
        1 => (0u8..4, any::<bool>()).prop_map(|(node, on)| REv::PermitNode { node, on }),
        2 => (0u8..4, any::<bool>()).prop_map(|(node, on)| REv::BanNode { node, on }),
        1 => Just(REv::PruneTick),
    ];
    (1u8..=6, 1u8..=6, 4u8..=30, prop_oneof![3 => Just(0u8), 1 => Just(1u8), 1 => Just(2u8), 1 => Just(3u8)], proptest::collection::vec(ev, 1..max))
        .prop_map(|(ip_burst, node_burst, total_burst, ip_family, events)| RecvCase { ip_burst, node_burst, total_burst, ip_family, events })
        .boxed()
}

pub struct C18;

fn gap_strategy() -> BoxedStrategy<Gap> {
    prop_oneof![
        4 => Just(Gap::Zero),
        4 => any::<u16>().prop_map(Gap::BelowT),
        1 => Just(Gap::TMinus1),
        2 => Just(Gap::ExactT),
        3 => any::<u16>().prop_map(Gap::BetweenTAndFull),
        1 => Just(Gap::Full),
        1 => any::<u16>().prop_map(Gap::BeyondFull),
    ]
    .boxed()
}

fn lim_strategy(max: usize) -> BoxedStrategy<LimCase> {
    let t = prop_oneof![
        2 => 1_000u64..1_000_000,
        2 => 1_000_000u64..1_000_000_000,
        1 => 1_000_000_000u64..=10_000_000_000,
        1 => Just(1_000u64),
    ];
    let ev = prop_oneof![
        12 => (0u8..6, gap_strategy(), prop_oneof![9 => Just(1u8), 1 => 1u8..34])
            .prop_map(|(key, gap, tokens)| LEv::Arrive { key, gap, tokens }),
        2 => Just(LEv::Prune),
    ];
    // one case in 16 has a crowd of fresh sources somewhere in the sequence
    let crowd = prop_oneof![15 => Just(None), 1 => (any::<u16>(), prop_oneof![1 => 1u16..300, 2 => 1030u16..3000]).prop_map(Some)];
    (1u8..=32, t, prop_oneof![3 => Just(0u8), 1 => 0u8..32], proptest::collection::vec(ev, 1..max), crowd)
        .prop_map(|(n, t_ns, extra, mut events, crowd)| {
            if let Some((at, k)) = crowd {
                let pos = (at as usize * (events.len() + 1)) >> 16;
                events.insert(pos, LEv::Crowd { n: k });
            }
            LimCase { n, t_ns, extra, events }
        })
        .boxed()
}

fn fil_strategy(max: usize) -> BoxedStrategy<FilCase> {
    let ev = prop_oneof![
        20 => (0u8..3, 0u8..4).prop_map(|(ip, node)| FEv::Arrive { ip, node }),
        1 => (0u8..3, any::<bool>()).prop_map(|(ip, on)| FEv::PermitIp { ip, on }),
        1 => (0u8..3, any::<bool>()).prop_map(|(ip, on)| FEv::BanIp { ip, on }),
        1 => (0u8..4, any::<bool>()).prop_map(|(node, on)| FEv::PermitNode { node, on }),
        1 => (0u8..4, any::<bool>()).prop_map(|(node, on)| FEv::BanNode { node, on }),
        1 => Just(FEv::Prune),
    ];
    (1u8..=6, 1u8..=6, 1u8..=24, any::<bool>(), prop_oneof![4 => Just(false), 1 => Just(true)], proptest::collection::vec(ev, 1..max), prop_oneof![3 => Just(0u8), 1 => Just(1u8), 2 => Just(2u8), 2 => Just(3u8)], prop_oneof![5 => Just(false), 1 => Just(true)])
        .prop_map(|(ip_burst, node_burst, total_burst, ban_1h, per_ip_features, events, ip_family, no_node_quota)| FilCase {
            ip_burst,
            node_burst,
            total_burst,
            ban_1h,
            per_ip_features,
            events,
            ip_family,
            no_node_quota,
        })
        .boxed()
}

impl Property for C18 {
    type Case = Case;
    const ID: &'static str = "C18";
    fn cases(tier: Tier) -> u64 {
        tier.pick(300_000, 6_000_000)
    }
    fn strategy(tier: Tier) -> BoxedStrategy<Case> {
        let n = tier.pick(300usize, 600usize);
        prop_oneof![
            5 => lim_strategy(n).prop_map(Case::Limiter),
            2 => fil_strategy(80).prop_map(Case::Filter),
            1 => recv_strategy(60).prop_map(Case::Recv),
        ]
        .prop_flat_map(|c| {
            // one case in ~300: the handler's periodic un-ban check
            let unban = (proptest::collection::vec((any::<bool>(), 0u8..4, prop_oneof![1 => Just(0u16), 2 => 2u16..150, 2 => 150u16..400, 1 => 400u16..4000]), 1..6), 1u8..=2)
                .prop_map(|(bans, periods)| Case::Unban(UnbanCase { bans, periods }));
            prop_oneof![300 => Just(c), 1 => unban]
        })
        .boxed()
    }
    fn run(case: &Case) -> CaseReport {
        match case {
            Case::Limiter(c) => run_limiter(c),
            Case::Filter(c) => run_filter(c),
            Case::Recv(c) => run_recv(c),
            Case::Unban(c) => run_unban(c),
        }
    }
    fn rule() -> String {
        "(a) arrival sequences (<=300 quick / <=600 thorough events over <=6 keys, gaps in {0, <t, t-1, t, t..n t, n t, >n t}, 10% multi-token batches, interleaved prune(now)) against the real Limiter with explicit time for quotas burst 1..32, replenish interval 1 us..10 s (period = n t, or n t + r with period >= 1 ms): every decision compared with an exact integer token bucket, with a second real instance that is never pruned (metamorphic), and all pairs of accepted arrivals checked against m*t <= period + window. (b) arrival sequences over 3 IPs x 4 node ids against the real Filter + the real global permit/ban list, quotas with a 1 h period (exactly burst tokens per key during a case), ban duration None/1h, permit/ban entries toggled between arrivals, prune_limiter calls; order-independent assertions B1..B5. (c) the same filter as wired into the real receive task (handle_inbound behind a channel): well-formed message / handshake / WHOAREYOU datagrams and undecodable bytes from 3 IPs x 4 node ids, exemptions for expected responses switched on and off, permit/ban entries, 30 s ticks of virtual time (the task's own pruning); for unsolicited datagrams: none from a banned IP or (if it carries a source id) a banned node id is handed to the handler, at most burst per IP / node id / in total are handed on, and one that is within every applicable quota and not banned is handed on. (d) one case in ~300: timed (2 s .. 1 h) and permanent bans are written to the global list while a real handler runs and 1..2 of its 5-minute un-ban check periods pass in virtual time (no real time passes): every ban that has not run out is still in force. Non-trivial: (a) a key was refused, a prune followed, and the key was accepted later; (b) the filter itself imposed a ban and a permit entry overrode a ban; (c) a handshake-kind datagram arrived from a banned or over-quota node id.".into()
    }
    fn assumptions() -> Vec<String> {
        vec![
            "Filter reads std::time::Instant: quotas use a 1 h period so that no token is replenished during a case (the outcome cannot flip with machine load)".into(),
            "max_nodes_per_ip / max_bans_per_ip add bans the statement does not mention: in that class only B1-B3, B5 and the upper bounds are asserted".into(),
            "the process-global PERMIT_BAN_LIST is reset at the start and end of every filter case; cases run sequentially inside a worker process".into(),
        ]
    }
}
