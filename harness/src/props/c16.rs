//! C16 - IP-diversity limits of the routing table (history invariant, real IP filters).

use crate::{
    ids::{self, Id},
    keys::{self, Net, RecSpec},
    runner::{CaseReport, Property, Tier},
};
use discv5::{
    enr::NodeId,
    kbucket::{
        ConnectionDirection, ConnectionState, Entry, FailureReason, InsertResult, KBucketsTable, Key, NodeStatus,
        UpdateResult,
    },
    Enr,
};
use proptest::prelude::*;
use serde::{Deserialize, Serialize};
use std::{cell::RefCell, collections::HashMap, time::Duration};

pub const POOL: u32 = 2048;
/// buckets 255-0 .. 255-5 are reachable with real key hashes from a pool of this size
pub const NBOFF: u8 = 6;

#[derive(Clone, Copy, Debug, PartialEq, Eq, Hash, Serialize, Deserialize)]
pub struct KSel {
    pub boff: u8,
    pub idx: u16,
}

#[derive(Clone, Debug, PartialEq, Eq, Hash, Serialize, Deserialize)]
pub enum Op {
    /// fill bucket 255-boff with `n` keys carrying filler-subnet records (2 per subnet)
    BulkFill { boff: u8, n: u8, conn: u16, first_filler: u8 },
    Insert { k: KSel, net: Net, seq: u8, connected: bool, incoming: bool },
    UpdateNode { k: KSel, net: Net, seq: u8, state: Option<bool> },
    UpdateStatus { k: KSel, connected: bool, direction: Option<bool> },
    Remove { k: KSel },
    Iter,
    Lookup { k: KSel },
    Closest { k: KSel },
    ByDist { boff: u8 },
    ExpirePending { boff: u8 },
}

#[derive(Clone, Debug, PartialEq, Eq, Hash, Serialize, Deserialize)]
pub struct Case {
    pub pending_zero: bool,
    pub max_incoming: u8,
    pub ops: Vec<Op>,
    /// companion through the public API: a real service configured with `ip_limit` (the filters are
    /// installed by Discv5::new). When present, `ops` is empty.
    #[serde(default)]
    pub svc: Option<SvcIp>,
}

#[derive(Clone, Copy, Debug, PartialEq, Eq, Hash, Serialize, Deserialize)]
pub enum SNet {
    Hot(u8),
    Filler(u8),
}

#[derive(Clone, Debug, PartialEq, Eq, Hash, Serialize, Deserialize)]
pub enum SStep {
    /// the handler reports a session with the node (its record of version `seq`)
    Session { k: KSel, net: SNet, seq: u8, incoming: bool },
    Disconnect { k: KSel },
    AddEnr { k: KSel, net: SNet, seq: u8 },
    /// a lookup for the id of `target`; its first FINDNODE is answered with these records (those at
    /// a distance that was not requested are left out)
    LookupAnswer { target: KSel, recs: Vec<(KSel, SNet, u8)> },
}

#[derive(Clone, Debug, PartialEq, Eq, Hash, Serialize, Deserialize)]
pub struct SvcIp {
    /// 0 IPv4, 1 IPv6, 2 dual stack
    pub mode: u8,
    pub steps: Vec<SStep>,
}

thread_local! {
    static SRECS: RefCell<HashMap<(u32, SNet, u8, u8), Enr>> = RefCell::new(HashMap::new());
}

/// A signed record of pool key `key` with an IPv4 address in the given /24 and - for IPv6 and
/// dual-stack services - an IPv6 socket as well (so that it is contactable there).
fn srec(key: u32, net: SNet, seq: u8, mode: u8) -> Enr {
    SRECS.with(|m| {
        if let Some(e) = m.borrow().get(&(key, net, seq, mode)) {
            return e.clone();
        }
        let host = (key % 250 + 1) as u8;
        let ip4 = match net {
            SNet::Hot(n) => std::net::Ipv4Addr::new(10, 0, n % 3, host),
            SNet::Filler(n) => std::net::Ipv4Addr::new(10, 1, n % 8, host),
        };
        let mut b = Enr::builder();
        b.seq(seq as u64).ip4(ip4).udp4(9000 + (key % 1000) as u16);
        if mode != 0 {
            b.ip6(std::net::Ipv6Addr::new(0x2001, 0xdb8, 0, 16, 0, 0, (key >> 16) as u16, key as u16)).udp6(9000 + (key % 1000) as u16);
        }
        let e = b.build(&keys::key(key)).expect("record");
        m.borrow_mut().insert((key, net, seq, mode), e.clone());
        e
    })
}

fn limits_of(t: &mut Table, when: &str) -> Option<(String, String)> {
    let mut table_counts: HashMap<[u8; 3], usize> = HashMap::new();
    for (i, b) in t.buckets_iter().enumerate() {
        let mut bc: HashMap<[u8; 3], usize> = HashMap::new();
        for n in b.iter() {
            if let Some(s) = subnet(&n.value) {
                *bc.entry(s).or_insert(0) += 1;
                *table_counts.entry(s).or_insert(0) += 1;
            }
        }
        if let Some((s, c)) = bc.iter().find(|(_, c)| **c > 2) {
            return Some((format!("ipfilter/bucket-limit-exceeded/through-the-service{when}"), format!("bucket {i} of the service's table holds {c} nodes of {}.{}.{}.0/24", s[0], s[1], s[2])));
        }
    }
    if let Some((s, c)) = table_counts.iter().find(|(_, c)| **c > 10) {
        return Some((format!("ipfilter/table-limit-exceeded/through-the-service{when}"), format!("the service's table holds {c} nodes of {}.{}.{}.0/24", s[0], s[1], s[2])));
    }
    None
}

async fn run_svc(c: &SvcIp, rep: &mut CaseReport) -> Option<(String, String)> {
    use crate::engines::svc::{reset_globals, Mode, Svc, SvcConfig};
    use discv5::{
        verif::{ConnectionDirection as Dir, HandlerIn, HandlerOut, RequestBody, Response, ResponseBody},
        NodeAddress,
    };
    reset_globals();
    let mode = c.mode % 3;
    let mut s = Svc::new(SvcConfig { key_idx: 0, mode: [Mode::Ip4, Mode::Ip6, Mode::Dual][mode as usize], ip_limit: true, ..Default::default() }).await;
    rep.class(["service-with-ip-limit/ipv4", "service-with-ip-limit/ipv6", "service-with-ip-limit/dual-stack"][mode as usize]);
    let addr_of = |e: &Enr| -> std::net::SocketAddr {
        if mode == 0 {
            std::net::SocketAddr::V4(e.udp4_socket().expect("udp4"))
        } else {
            std::net::SocketAddr::V6(e.udp6_socket().expect("udp6"))
        }
    };
    let mut near_limit = false;
    for st in &c.steps {
        match st {
            SStep::Session { k, net, seq, incoming } => {
                let key = resolve(*k);
                let e = srec(key, *net, *seq, mode);
                let a = addr_of(&e);
                s.inject(HandlerOut::Established(e, a, if *incoming { Dir::Incoming } else { Dir::Outgoing })).await;
            }
            SStep::Disconnect { k } => {
                let _ = s.d.disconnect_node(&ids::node_id(&keys::id_of(resolve(*k))));
            }
            SStep::AddEnr { k, net, seq } => {
                let _ = s.d.add_enr(srec(resolve(*k), *net, *seq, mode));
            }
            SStep::LookupAnswer { target, recs } => {
                let tid = keys::id_of(resolve(*target));
                s.take_outbox();
                let handle = tokio::spawn(s.d.find_node(ids::node_id(&tid)));
                s.settle().await;
                let req = s.take_outbox().into_iter().find_map(|m| match m {
                    HandlerIn::Request(contact, r) => match r.body {
                        RequestBody::FindNode { distances } => Some((contact, r.id.clone(), distances)),
                        _ => None,
                    },
                    _ => None,
                });
                if let Some((contact, id, ds)) = req {
                    let rid = contact.node_id().raw();
                    let nodes: Vec<Enr> = recs
                        .iter()
                        .take(4)
                        .map(|(k, net, seq)| srec(resolve(*k), *net, *seq, mode))
                        .filter(|e| {
                            let eid = e.node_id().raw();
                            eid != rid && ds.contains(&(ids::log2(&rid, &eid) as u64))
                        })
                        .collect();
                    if !nodes.is_empty() {
                        rep.class("service-with-ip-limit/records-learnt-from-a-NODES-answer");
                    }
                    let na = NodeAddress::new(contact.socket_addr(), contact.node_id());
                    s.inject(HandlerOut::Response(na, Box::new(Response { id, body: ResponseBody::Nodes { total: 1, nodes } }))).await;
                }
                handle.abort();
                s.settle().await;
            }
        }
        s.take_outbox();
        s.take_events();
        if let Some(p) = crate::runner::take_panic() {
            return Some((format!("panic-in-task/{}", p.split(':').take(2).collect::<Vec<_>>().join(":")), p));
        }
        // ---- the limits on what is stored, and on what would be stored once waiting nodes move up
        let mut t: Table = s.d.kbuckets();
        if let Some(v) = limits_of(&mut t, "") {
            return Some(v);
        }
        let waiting: Vec<usize> = t.buckets_iter().enumerate().filter(|(_, b)| b.pending().is_some()).map(|(i, _)| i).collect();
        if !waiting.is_empty() {
            rep.class("service-with-ip-limit/bucket-with-a-waiting-node");
            for i in &waiting {
                let _ = t.verif_expire_pending(*i);
            }
            let _ = t.iter().count();
            if let Some(v) = limits_of(&mut t, "/after-promotion-of-waiting-nodes") {
                return Some(v);
            }
        }
        let mut counts: HashMap<[u8; 3], usize> = HashMap::new();
        for b in t.buckets_iter() {
            for n in b.iter() {
                if let Some(sn) = subnet(&n.value) {
                    *counts.entry(sn).or_insert(0) += 1;
                }
            }
        }
        if counts.values().any(|c| *c >= 9) {
            near_limit = true;
        }
    }
    s.d.shutdown();
    rep.nontrivial = near_limit;
    None
}

fn svc_strategy() -> BoxedStrategy<SvcIp> {
    let snet = || prop_oneof![6 => (0u8..3).prop_map(SNet::Hot), 3 => (0u8..8).prop_map(SNet::Filler)];
    let small = |i: u16| i.wrapping_mul(4099).wrapping_add(17);
    let step = prop_oneof![
        12 => (any_ksel(), snet(), 1u8..4, any::<bool>()).prop_map(|(k, net, seq, incoming)| SStep::Session { k, net, seq, incoming }),
        2 => any_ksel().prop_map(|k| SStep::Disconnect { k }),
        3 => (any_ksel(), snet(), 1u8..4).prop_map(|(k, net, seq)| SStep::AddEnr { k, net, seq }),
        3 => (any_ksel(), proptest::collection::vec((any_ksel(), snet(), 1u8..4), 1..4)).prop_map(|(target, recs)| SStep::LookupAnswer { target, recs }),
    ];
    let free = (0u8..3, proptest::collection::vec(step.clone(), 1..60)).prop_map(|(mode, steps)| SvcIp { mode, steps });
    // by construction: a /24 at the table limit, a full bucket with a waiting node, and a newer
    // record of the WAITING node (moved into that /24) learnt from a NODES answer
    let scenario = (0u8..3, 0u8..NBOFF, 0u8..3, proptest::collection::vec(step, 0..6)).prop_map(move |(mode, b, hot, tail)| {
        let mut v = Vec::new();
        for boff in (0..NBOFF).filter(|x| *x != b) {
            for i in 0..2u16 {
                v.push(SStep::Session { k: KSel { boff, idx: small(i) }, net: SNet::Hot(hot), seq: 1, incoming: false });
            }
        }
        for i in 0..16u16 {
            v.push(SStep::Session { k: KSel { boff: b, idx: small(i) }, net: SNet::Filler((i / 2) as u8), seq: 1, incoming: false });
        }
        v.push(SStep::Disconnect { k: KSel { boff: b, idx: small(0) } });
        let waiting = KSel { boff: b, idx: small(20) };
        v.push(SStep::Session { k: waiting, net: SNet::Hot((hot + 1) % 3), seq: 1, incoming: false });
        v.push(SStep::LookupAnswer { target: waiting, recs: vec![(waiting, SNet::Hot(hot), 2)] });
        v.extend(tail);
        SvcIp { mode, steps: v }
    });
    prop_oneof![3 => free, 1 => scenario].boxed()
}

thread_local! {
    static BUCKETS: RefCell<Option<Vec<Vec<u32>>>> = const { RefCell::new(None) };
}

fn local_id() -> Id {
    keys::id_of(0)
}

/// pool indices per bucket offset (bucket 255-boff) relative to the local id
fn bucket_members(boff: u8) -> Vec<u32> {
    BUCKETS.with(|b| {
        let mut b = b.borrow_mut();
        if b.is_none() {
            let l = local_id();
            let mut v = vec![Vec::new(); NBOFF as usize];
            for i in 1..=POOL {
                let d = ids::log2(&l, &keys::id_of(i));
                let off = 256 - d as i32;
                if off >= 0 && (off as u8) < NBOFF {
                    v[off as usize].push(i);
                }
            }
            *b = Some(v);
        }
        b.as_ref().unwrap()[boff as usize % NBOFF as usize].clone()
    })
}

fn resolve(k: KSel) -> u32 {
    let m = bucket_members(k.boff);
    m[(k.idx as usize * m.len()) >> 16]
}

type Table = KBucketsTable<NodeId, Enr>;

fn key_of(id: &Id) -> Key<NodeId> {
    Key::from(ids::node_id(id))
}

fn status(connected: bool, incoming: bool) -> NodeStatus {
    NodeStatus {
        state: if connected { ConnectionState::Connected } else { ConnectionState::Disconnected },
        direction: if incoming { ConnectionDirection::Incoming } else { ConnectionDirection::Outgoing },
    }
}

fn subnet(e: &Enr) -> Option<[u8; 3]> {
    e.ip4().map(|ip| {
        let o = ip.octets();
        [o[0], o[1], o[2]]
    })
}

struct Obs {
    /// per bucket: subnets of stored nodes
    buckets: Vec<Vec<Option<[u8; 3]>>>,
    pending: Vec<Option<(Id, Option<[u8; 3]>)>>,
    full_front_disconnected: Vec<bool>,
    ids: Vec<Vec<Id>>,
}

fn observe(t: &Table) -> Obs {
    let mut o = Obs { buckets: vec![], pending: vec![], full_front_disconnected: vec![], ids: vec![] };
    for b in t.buckets_iter() {
        o.buckets.push(b.iter().map(|n| subnet(&n.value)).collect());
        o.ids.push(b.iter().map(|n| n.key.preimage().raw()).collect());
        o.pending.push(b.pending().map(|p| (p.verif_key().preimage().raw(), subnet(p.value()))));
        let v: Vec<_> = b.iter().collect();
        o.full_front_disconnected.push(v.len() == 16 && !v[0].status.is_connected());
    }
    o
}

fn expand(op: &Op) -> Vec<Op> {
    match op {
        Op::BulkFill { boff, n, conn, first_filler } => (0..*n)
            .map(|i| Op::Insert {
                // spread over the member list deterministically
                k: KSel { boff: *boff, idx: (i as u16).wrapping_mul(4099).wrapping_add(17) },
                net: Net::Filler((first_filler + i / 2) % 8),
                seq: 1,
                connected: (conn >> i) & 1 == 1,
                incoming: false,
            })
            .collect(),
        o => vec![o.clone()],
    }
}

fn net_strategy() -> BoxedStrategy<Net> {
    prop_oneof![
        12 => (0u8..3).prop_map(Net::Hot),
        5 => (0u8..8).prop_map(Net::Filler),
        1 => Just(Net::V6Only),
        1 => Just(Net::NoAddr),
        2 => (0u8..3).prop_map(Net::V6MappedHot),
        2 => Just(Net::V6Loopback),
        3 => (0u8..3).prop_map(Net::HotNoUdp),
        4 => Just(Net::Loopback4),
    ]
    .boxed()
}

fn ksel() -> BoxedStrategy<KSel> {
    (0u8..NBOFF, any::<u16>()).prop_map(|(boff, idx)| KSel { boff, idx }).boxed()
}

/// keys with small indices so that the same keys are hit repeatedly
fn ksel_small() -> BoxedStrategy<KSel> {
    (0u8..NBOFF, 0u16..24).prop_map(|(boff, i)| KSel { boff, idx: i.wrapping_mul(4099).wrapping_add(17) }).boxed()
}

fn any_ksel() -> BoxedStrategy<KSel> {
    prop_oneof![3 => ksel_small(), 1 => ksel()].boxed()
}

fn op_strategy() -> BoxedStrategy<Op> {
    prop_oneof![
        3 => (0u8..NBOFF, 14u8..=16, any::<u16>(), 0u8..8).prop_map(|(boff, n, conn, first_filler)| Op::BulkFill { boff, n, conn, first_filler }),
        2 => (0u8..NBOFF, 14u8..=16, 0u8..8).prop_map(|(boff, n, first_filler)| Op::BulkFill { boff, n, conn: 0, first_filler }),
        30 => (any_ksel(), net_strategy(), 1u8..4, any::<bool>(), any::<bool>())
            .prop_map(|(k, net, seq, connected, incoming)| Op::Insert { k, net, seq, connected, incoming }),
        10 => (any_ksel(), net_strategy(), 1u8..4, proptest::option::of(any::<bool>()))
            .prop_map(|(k, net, seq, state)| Op::UpdateNode { k, net, seq, state }),
        6 => (any_ksel(), any::<bool>(), proptest::option::of(any::<bool>()))
            .prop_map(|(k, connected, direction)| Op::UpdateStatus { k, connected, direction }),
        4 => any_ksel().prop_map(|k| Op::Remove { k }),
        2 => Just(Op::Iter),
        2 => any_ksel().prop_map(|k| Op::Lookup { k }),
        1 => any_ksel().prop_map(|k| Op::Closest { k }),
        1 => (0u8..NBOFF).prop_map(|boff| Op::ByDist { boff }),
        6 => (0u8..NBOFF).prop_map(|boff| Op::ExpirePending { boff }),
    ]
    .boxed()
}

/// By construction: a hot subnet is brought to the table limit in the other buckets (2 per
/// bucket), one bucket is filled (front disconnected) and gets a waiting (pending) node with a
/// filler record; then the record of the WAITING node is updated into the hot subnet, its time-out
/// elapses and the table is touched.
fn pending_move_scenario() -> BoxedStrategy<Vec<Op>> {
    (0u8..NBOFF, 0u8..3, 0u8..8, any::<bool>(), proptest::option::of(any::<bool>()), prop_oneof![3 => Just(10u8), 1 => 7u8..10])
        .prop_map(|(b, hot, first_filler, via_insert, state, others)| {
            let small = |i: u16| i.wrapping_mul(4099).wrapping_add(17);
            let mut v = Vec::new();
            let mut placed = 0u8;
            for boff in (0..NBOFF).filter(|x| *x != b) {
                for i in 0..2u16 {
                    if placed < others {
                        v.push(Op::Insert { k: KSel { boff, idx: small(i) }, net: Net::Hot(hot), seq: 1, connected: true, incoming: false });
                        placed += 1;
                    }
                }
            }
            v.push(Op::BulkFill { boff: b, n: 16, conn: 0xFFFE, first_filler });
            let waiting = KSel { boff: b, idx: small(20) };
            // (the 8 filler subnets are used up by the fill, 2 per subnet: the waiting node starts in another hot subnet)
            v.push(Op::Insert { k: waiting, net: Net::Hot((hot + 1) % 3), seq: 1, connected: true, incoming: false });
            if via_insert {
                v.push(Op::Insert { k: waiting, net: Net::Hot(hot), seq: 2, connected: true, incoming: false });
            } else {
                v.push(Op::UpdateNode { k: waiting, net: Net::Hot(hot), seq: 2, state });
            }
            v.push(Op::ExpirePending { boff: b });
            v.push(Op::Iter);
            v
        })
        .boxed()
}

/// A waiting (pending) node of the hot subnet is reported disconnected while it waits; then the hot
/// subnet is filled up in other buckets, the time-out elapses and the table is touched.
fn pending_status_scenario() -> BoxedStrategy<Vec<Op>> {
    (0u8..NBOFF, 0u8..3, 0u8..8, prop_oneof![3 => Just(10u8), 1 => 8u8..10], proptest::option::of(any::<bool>()), any::<bool>())
        .prop_map(|(b, hot, first_filler, others, direction, reconnect)| {
            let small = |i: u16| i.wrapping_mul(4099).wrapping_add(17);
            let mut v = vec![Op::BulkFill { boff: b, n: 16, conn: 0xFFFE, first_filler }];
            let waiting = KSel { boff: b, idx: small(20) };
            v.push(Op::Insert { k: waiting, net: Net::Hot(hot), seq: 1, connected: true, incoming: false });
            v.push(Op::UpdateStatus { k: waiting, connected: false, direction });
            let mut placed = 0u8;
            for boff in (0..NBOFF).filter(|x| *x != b) {
                for i in 0..2u16 {
                    if placed < others {
                        v.push(Op::Insert { k: KSel { boff, idx: small(i) }, net: Net::Hot(hot), seq: 1, connected: true, incoming: false });
                        placed += 1;
                    }
                }
            }
            if reconnect {
                v.push(Op::UpdateStatus { k: waiting, connected: true, direction: None });
            }
            v.push(Op::ExpirePending { boff: b });
            v.push(Op::Iter);
            v
        })
        .boxed()
}

/// The hot subnet is at the table limit and one of its nodes is the disconnected FRONT node of a full
/// bucket; a connected newcomer of that subnet is offered to the bucket (it could only get in by
/// replacing the front node, but for the table-wide count it is an eleventh node until then); then
/// another node leaves the bucket, the time-out elapses and the table is touched.
fn front_in_hot_subnet_scenario() -> BoxedStrategy<Vec<Op>> {
    (0u8..NBOFF, 0u8..3, 0u8..8, 1u8..16, any::<bool>()).prop_map(|(b, hot, first_filler, leaver, nine)| {
        let small = |i: u16| i.wrapping_mul(4099).wrapping_add(17);
        let mut v = Vec::new();
        let mut placed = 0u8;
        let others = if nine { 9 } else { 8 };
        for boff in (0..NBOFF).filter(|x| *x != b) {
            for i in 0..2u16 {
                if placed < others {
                    v.push(Op::Insert { k: KSel { boff, idx: small(i) }, net: Net::Hot(hot), seq: 1, connected: true, incoming: false });
                    placed += 1;
                }
            }
        }
        v.push(Op::BulkFill { boff: b, n: 16, conn: 0xFFFE, first_filler });
        // the front node's record moves into the hot subnet
        v.push(Op::UpdateNode { k: KSel { boff: b, idx: small(0) }, net: Net::Hot(hot), seq: 2, state: None });
        v.push(Op::Insert { k: KSel { boff: b, idx: small(20) }, net: Net::Hot(hot), seq: 1, connected: true, incoming: false });
        v.push(Op::Remove { k: KSel { boff: b, idx: small(leaver as u16) } });
        v.push(Op::ExpirePending { boff: b });
        v.push(Op::Iter);
        v
    })
    .boxed()
}

pub struct C16;

pub fn run_case(case: &Case) -> CaseReport {
    let mut rep = CaseReport::default();
    let l = local_id();
    let mut t: Table = KBucketsTable::new(
        key_of(&l),
        if case.pending_zero { Duration::from_secs(0) } else { Duration::from_secs(3600) },
        case.max_incoming as usize,
        Some(discv5::verif::ip_table_filter()),
        Some(discv5::verif::ip_bucket_filter()),
    );
    let mut near_limit_seen = false; // a subnet reached 9 in the table or 2 in a full bucket
    let mut nontrivial = false;
    let mut pre = observe(&t);
    'outer: for op in &case.ops {
        for e in expand(op) {
            // subnet this op is about
            let mut op_subnet: Option<[u8; 3]> = None;
            let mut failed_filter: Option<String> = None;
            let mut no_ipv4 = false;
            match &e {
                Op::BulkFill { .. } => unreachable!(),
                Op::Insert { k, net, seq, connected, incoming } => {
                    let idx = resolve(*k);
                    let rec = keys::record(RecSpec { key: idx, net: *net, seq: *seq });
                    op_subnet = subnet(&rec);
                    no_ipv4 = rec.ip4().is_none();
                    let r = t.insert_or_update(&key_of(&keys::id_of(idx)), rec, status(*connected, *incoming));
                    if let InsertResult::Failed(f @ (FailureReason::TableFilter | FailureReason::BucketFilter)) = &r {
                        failed_filter = Some(format!("{f:?}"));
                    }
                }
                Op::UpdateNode { k, net, seq, state } => {
                    let idx = resolve(*k);
                    let rec = keys::record(RecSpec { key: idx, net: *net, seq: *seq });
                    op_subnet = subnet(&rec);
                    no_ipv4 = rec.ip4().is_none();
                    let r = t.update_node(
                        &key_of(&keys::id_of(idx)),
                        rec,
                        state.map(|c| if c { ConnectionState::Connected } else { ConnectionState::Disconnected }),
                    );
                    if let UpdateResult::Failed(f @ (FailureReason::TableFilter | FailureReason::BucketFilter)) = &r {
                        failed_filter = Some(format!("{f:?}"));
                    }
                }
                Op::UpdateStatus { k, connected, direction } => {
                    let idx = resolve(*k);
                    let _ = t.update_node_status(
                        &key_of(&keys::id_of(idx)),
                        if *connected { ConnectionState::Connected } else { ConnectionState::Disconnected },
                        direction.map(|i| if i { ConnectionDirection::Incoming } else { ConnectionDirection::Outgoing }),
                    );
                }
                Op::Remove { k } => {
                    let _ = t.remove(&key_of(&keys::id_of(resolve(*k))));
                }
                Op::Iter => {
                    let _ = t.iter().count();
                }
                Op::Lookup { k } => {
                    let key = key_of(&keys::id_of(resolve(*k)));
                    match t.entry(&key) {
                        Entry::Present(e, _) => {
                            let _ = e.value();
                        }
                        Entry::Pending(e, _) => {
                            let _ = e.value();
                        }
                        _ => {}
                    }
                }
                Op::Closest { k } => {
                    let key = key_of(&keys::id_of(resolve(*k)));
                    let _ = t.closest_keys(&key).count();
                }
                Op::ByDist { boff } => {
                    let _ = t.nodes_by_distances(&[256 - *boff as u64], 16).len();
                }
                Op::ExpirePending { boff } => {
                    let _ = t.verif_expire_pending(255 - *boff as usize);
                }
            }
            let post = observe(&t);
            if near_limit_seen && op_subnet.is_some() {
                nontrivial = true;
            }
            // ---- oracle
            if let (true, Some(f)) = (no_ipv4, &failed_filter) {
                rep.fail(
                    "ipfilter/no-ipv4-record-refused",
                    format!("op {e:?} with a record without IPv4 address returned Failed({f})"),
                );
                break 'outer;
            }
            let mut table_counts: HashMap<[u8; 3], usize> = HashMap::new();
            for (i, b) in post.buckets.iter().enumerate() {
                let mut bc: HashMap<[u8; 3], usize> = HashMap::new();
                for s in b.iter().flatten() {
                    *bc.entry(*s).or_insert(0) += 1;
                    *table_counts.entry(*s).or_insert(0) += 1;
                }
                for (s, c) in &bc {
                    if *c > 2 {
                        let via_pending = pre.pending[i].as_ref().map(|(id, _)| post.ids[i].contains(id) && !pre.ids[i].contains(id)).unwrap_or(false);
                        rep.fail(
                            format!("ipfilter/bucket-limit-exceeded{}", if via_pending { "/via-pending-promotion" } else { "" }),
                            format!("bucket {i} holds {c} nodes of subnet {}.{}.{}.0/24 after {e:?}", s[0], s[1], s[2]),
                        );
                        break 'outer;
                    }
                    if *c == 2 && b.len() == 16 {
                        near_limit_seen = true;
                    }
                }
            }
            for (s, c) in &table_counts {
                if *c > 10 {
                    // did a pending node get promoted in this step?
                    let via_pending = (0..256).any(|i| {
                        pre.pending[i].as_ref().map(|(id, sn)| *sn == Some(*s) && post.ids[i].contains(id) && !pre.ids[i].contains(id)).unwrap_or(false)
                    });
                    rep.fail(
                        format!("ipfilter/table-limit-exceeded{}", if via_pending { "/via-pending-promotion" } else { "" }),
                        format!("the table holds {c} nodes of subnet {}.{}.{}.0/24 after {e:?}", s[0], s[1], s[2]),
                    );
                    break 'outer;
                }
                if *c >= 9 {
                    near_limit_seen = true;
                }
            }
            // statistics: promotion of a hot-subnet pending node
            for i in 0..256 {
                if let Some((id, sn)) = &pre.pending[i] {
                    if post.ids[i].contains(id) && !pre.ids[i].contains(id) {
                        rep.class("pending-promoted");
                        if matches!(sn, Some([10, 0, _])) {
                            rep.class("hot-subnet-pending-promoted");
                        }
                    }
                }
            }
            if failed_filter.is_some() {
                rep.class(format!("refused-{}", failed_filter.unwrap()));
            }
            pre = post;
        }
    }
    if pre.full_front_disconnected.iter().any(|x| *x) {
        rep.class("full-bucket-with-disconnected-front");
    }
    rep.nontrivial = nontrivial;
    rep
}

impl Property for C16 {
    type Case = Case;
    const ID: &'static str = "C16";
    fn cases(tier: Tier) -> u64 {
        tier.pick(16_000, 250_000)
    }
    fn strategy(tier: Tier) -> BoxedStrategy<Case> {
        let n = tier.pick(150usize, 250usize);
        let frag = prop_oneof![60 => op_strategy().prop_map(|o| vec![o]), 1 => pending_move_scenario(), 1 => pending_status_scenario(), 1 => front_in_hot_subnet_scenario()];
        let mixed = (any::<bool>(), prop_oneof![4 => Just(16u8), 1 => 0u8..=16], proptest::collection::vec(frag, 1..n))
            .prop_map(|(pending_zero, max_incoming, frags)| Case { pending_zero, max_incoming, ops: frags.into_iter().flatten().collect(), svc: None });
        // the scenario on an empty table, followed by a short random tail
        let focused = (any::<bool>(), prop_oneof![pending_move_scenario(), pending_status_scenario(), front_in_hot_subnet_scenario()], proptest::collection::vec(op_strategy(), 0..12)).prop_map(|(pending_zero, mut ops, tail)| {
            ops.extend(tail);
            Case { pending_zero, max_incoming: 16, ops, svc: None }
        });
        let svc = svc_strategy().prop_map(|sv| Case { pending_zero: false, max_incoming: 16, ops: vec![], svc: Some(sv) });
        prop_oneof![80 => mixed, 10 => focused, 4 => svc].boxed()
    }
    fn run(case: &Case) -> CaseReport {
        if let Some(sv) = &case.svc {
            let mut rep = CaseReport::default();
            if let Some((s, d)) = crate::engines::svc::run_blocking(run_svc(sv, &mut rep)) {
                rep.fail(s, d);
            }
            return rep;
        }
        run_case(case)
    }
    fn rule() -> String {
        "histories (<=150 quick / <=250 thorough ops; bulk fills expanded) of the filter-respecting table API (insert_or_update, update_node, update_node_status, remove, iter, entry lookup, closest_keys, nodes_by_distances, forced pending expiry) on KBucketsTable<NodeId, Enr> built with the crate's own IpTableFilter/IpBucketFilter; keys are real key hashes from a deterministic pool of 2048 keys in buckets 250..255; records are signed and drawn from 3 hot /24 subnets (also without a UDP port: ip4 + tcp4 only), an IPv4 loopback /24, 8 filler subnets, IPv6-only (ordinary, IPv4-mapped into a hot subnet, ::1) and address-less shapes, with seq 1..3 so that updates move nodes between subnets. By-construction fragments: the record of a waiting (pending) node is updated into a subnet at the table limit; a waiting node of a subnet is reported disconnected, the subnet is then filled up in other buckets and the node's time-out elapses; a subnet at the table limit includes the disconnected front node of a full bucket, a newcomer of that subnet is offered to that bucket, another node leaves it and the time-out elapses. After every elementary op: per /24 <=2 stored nodes per bucket and <=10 in the table; a record without IPv4 is never refused by a filter. One case in 24 goes through the public API: a real service (IPv4 / IPv6 / dual stack) configured with ip_limit behind a scripted handler gets session reports, disconnects, add_enr calls and NODES answers with records from the hot and filler subnets (plus a by-construction scenario: a /24 at the table limit, a full bucket with a waiting node, and a newer record of the waiting node moved into that /24 learnt from a NODES answer); after every step a clone of its table (Discv5::kbuckets) must respect the limits, also after every waiting node has been promoted in the clone. Non-trivial = some subnet reached 9 table entries or 2 entries in a full bucket and a later op carried a record with an IPv4 address.".into()
    }
    fn assumptions() -> Vec<String> {
        vec![
            "Entry::insert / value_mut are excluded: their documentation says they bypass the filters".into(),
            "pending slots are not counted as held nodes".into(),
            "pending deadlines in the regimes 0 / 1h + forced expiry (guarded hook)".into(),
        ]
    }
}
