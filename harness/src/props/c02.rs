//! C02 - Delivered messages are authentic and untampered (ledger inclusion).

use crate::{
    engines::{wire::*, wire_interp::*},
    ids,
    props::wire_gen,
    runner::{CaseReport, Property, Tier},
};
use discv5::verif::{self as hv, HandlerOut, RequestBody, RequestId};
use proptest::prelude::*;
use serde::{Deserialize, Serialize};
use std::collections::HashSet;

#[derive(Clone, Debug, PartialEq, Eq, Hash, Serialize, Deserialize)]
pub struct Case {
    pub cfg: WireConfig,
    pub ops: Vec<Op>,
}

pub struct C02;

/// "mutate:FlipBit { .. }" -> "mutate-FlipBit"
fn label(m: &str) -> String {
    m.split(|c: char| !c.is_ascii_alphanumeric() && c != '-').filter(|x| !x.is_empty()).take(2).collect::<Vec<_>>().join("-")
}

#[derive(Default)]
pub struct Authentic {
    seen_events: usize,
    /// handler-internal request ids seen in snapshots, per node
    internal: HashSet<(usize, RequestId)>,
    nontrivial: bool,
    classes: Vec<String>,
    deliveries: u64,
}

impl Oracle for Authentic {
    fn after_step(&mut self, w: &World, op: &Op) -> Option<(String, String)> {
        for (i, s) in w.snaps.iter().enumerate() {
            for a in s.active.iter().filter(|a| a.internal) {
                self.internal.insert((i, a.id.clone()));
            }
            for a in s.pending.iter().filter(|a| a.internal) {
                self.internal.insert((i, a.id.clone()));
            }
        }
        // statistics: tampered datagram that still decodes, injected while a session for the claimed source exists
        for j in w.step_injections() {
            if let Some(m) = &j.manipulation {
                if j.genuine_of.is_none() || m.contains("other-address") {
                    if let Ok((p, _)) = hv::packet_decode(&ids::node_id(&w.nodes[j.to_node].id), Default::default(), &j.bytes) {
                        let src = match p.kind {
                            discv5::packet::PacketKind::Message { src_id } => Some(src_id),
                            discv5::packet::PacketKind::Handshake { src_id, .. } => Some(src_id),
                            _ => None,
                        };
                        if let Some(src) = src {
                            if w.prev_snaps[j.to_node].sessions.iter().any(|s| s.addr.node_id == src) {
                                self.nontrivial = true;
                                let c = format!("tampered-decodable/{}", label(m));
                                if !self.classes.contains(&c) {
                                    self.classes.push(c);
                                }
                            }
                        }
                    }
                }
            }
        }
        let evs: Vec<EvRec> = w.events[self.seen_events..].to_vec();
        self.seen_events = w.events.len();
        for e in &evs {
            let (addr, what, is_req) = match &e.out {
                HandlerOut::Request(a, r) => (a.clone(), format!("{r}"), true),
                HandlerOut::Response(a, r) => (a.clone(), format!("{r}"), false),
                _ => continue,
            };
            self.deliveries += 1;
            let h = e.node;
            // the datagram that caused it
            let inj: Vec<&Injection> = w.injections.iter().filter(|j| j.step == e.step && j.to_node == h).collect();
            let Some(j) = inj.last() else {
                return Some((
                    "authentic/delivery-without-datagram".into(),
                    format!("node {h} delivered {what} in a step in which no datagram was handed to it (op {op:?})"),
                ));
            };
            let manip = j.manipulation.clone().unwrap_or("plain delivery".into());
            let genuine = j.genuine_of.map(|idx| &w.log[idx]);
            let Some(g) = genuine else {
                return Some((
                    format!("authentic/delivery-from-tampered-datagram/{}", label(&manip)),
                    format!("node {h} delivered {what} (attributed to {addr}) from a datagram that is not byte-identical to any genuine one: {manip}"),
                ));
            };
            let Some(q) = g.from_node else {
                return Some(("authentic/delivery-from-adversary-datagram".into(), format!("node {h} delivered {what} from an adversary-crafted datagram")));
            };
            if g.to_addr != w.nodes[h].addr || g.to_id.raw() != w.nodes[h].id {
                return Some((
                    "authentic/delivery-of-datagram-meant-for-another-node".into(),
                    format!("node {h} delivered {what} from a datagram that node {q} emitted for {} ({manip})", g.to_addr),
                ));
            }
            if j.from_addr != w.nodes[q].addr {
                // Was a WHOAREYOU that node h had sent TO THAT ADDRESS passed on to node q (which answered it in
                // good faith)? Then the party at that address is a relay between h and q: the handshake q
                // produced verifies against h's own challenge for that address. The protocol does not bind
                // addresses into the handshake - recorded as a known finding under its own signature.
                let relayed = w.log.iter().any(|d| {
                    d.from_node == Some(h)
                        && d.to_addr == j.from_addr
                        && d.to_id.raw() == w.nodes[q].id
                        && matches!(d.decoded.as_ref().map(|p| &p.0.kind), Some(discv5::packet::PacketKind::WhoAreYou { .. }))
                        && w.injections.iter().any(|x| x.to_node == q && x.bytes == d.bytes)
                        // (and it was THAT datagram: node h never sent node q's own address the same bytes)
                        && !w.log.iter().any(|o| o.idx != d.idx && o.from_node == Some(h) && o.to_addr == w.nodes[q].addr && o.bytes == d.bytes)
                });
                return Some((
                    if relayed { "authentic/delivery-from-wrong-source-address/handshake-relayed-through-that-address".to_string() } else { "authentic/delivery-from-wrong-source-address".to_string() },
                    format!("node {h} delivered {what} from a genuine datagram of node {q} presented from {} ({manip}){}", j.from_addr, if relayed { format!("; node {h}'s WHOAREYOU for that address had been passed on to node {q}, whose handshake then verified there") } else { String::new() }),
                ));
            }
            if addr.node_id.raw() != w.nodes[q].id || addr.socket_addr != w.nodes[q].addr {
                return Some((
                    "authentic/wrong-attribution".into(),
                    format!("node {h} attributed {what} to {addr}, the datagram came from node {q} ({})", w.nodes[q].addr),
                ));
            }
            // content: exactly what q's application (or q's handler, for its internal record request) handed over for h
            let ok = if is_req {
                let HandlerOut::Request(_, r) = &e.out else { unreachable!() };
                w.requests_given.iter().any(|(n, dst, x)| *n == q && dst.socket_addr == w.nodes[h].addr && dst.node_id.raw() == w.nodes[h].id && x == &**r)
                    || (self.internal.contains(&(q, r.id.clone())) && matches!(&r.body, RequestBody::FindNode { distances } if distances == &vec![0]))
            } else {
                let HandlerOut::Response(_, r) = &e.out else { unreachable!() };
                w.responses_given.iter().any(|(n, dst, x)| *n == q && dst.socket_addr == w.nodes[h].addr && dst.node_id.raw() == w.nodes[h].id && x == &**r)
            };
            if !ok {
                return Some((
                    "authentic/content-never-sent-by-peer".into(),
                    format!("node {h} delivered {what} attributed to node {q}, whose application never handed this message over for node {h}"),
                ));
            }
        }
        None
    }

    fn report(&self, _w: &World, rep: &mut CaseReport) {
        rep.nontrivial = self.nontrivial;
        for c in &self.classes {
            rep.class(c.clone());
        }
        rep.count("deliveries-checked", self.deliveries);
    }
}

impl Property for C02 {
    type Case = Case;
    const ID: &'static str = "C02";
    fn cases(tier: Tier) -> u64 {
        tier.pick(32_000, 500_000)
    }
    fn strategy(tier: Tier) -> BoxedStrategy<Case> {
        let n = tier.pick(40usize, 100usize);
        wire_gen::config_strategy(false)
            .prop_flat_map(move |cfg| {
                let np = cfg.n_peers;
                (Just(cfg), wire_gen::ops_strategy(np, wire_gen::Mix::Tamper, n))
            })
            .prop_map(|(mut cfg, ops)| {
                // in half of the cases the records are dual-stack (an IPv6 socket next to the IPv4 one), and
                // in two thirds of those V itself listens on both families
                cfg.dual_records = cfg.seqs.get(1).map(|s| s % 2 == 0).unwrap_or(false);
                cfg.v_dual_listen = cfg.dual_records && cfg.seqs.get(2).map(|s| *s != 1).unwrap_or(false);
                Case { cfg, ops }
            })
            .boxed()
    }
    fn run(case: &Case) -> CaseReport {
        let mut rep = CaseReport::default();
        let mut o = Authentic::default();
        run_case_blocking(case.cfg.clone(), &case.ops, Drain::None, &mut o, &mut rep);
        rep
    }
    fn rule() -> String {
        "schedules (<=40 quick / <=100 thorough ops) of honest exchanges among 2..4 real handlers (all request kinds, fresh / re-keyed sessions via restarts, record-less contacts) in which the network applies to ANY logged datagram of any kind: a bit flip in a chosen region (IV, static header, nonce, auth-data size, auth-data, ciphertext, tag; on the raw bytes or in the unmasked domain), truncation to/by n bytes, extension, byte insertion/deletion, header/body and IV splices with another datagram, auth-data swap between datagrams, re-masking for another node id with delivery to that node, redirection to another node, re-injection from another source address (an attacker's, another node's, another port of the peer's IP, the IPv4-mapped form, the other socket a dual-stack record advertises - also when the receiver itself listens on both families). Oracle: every Request/Response a handler surfaces must (a) be caused by a datagram byte-identical to one an honest peer emitted for exactly this node, (b) presented from that peer's address, (c) be attributed to that peer's (id, address), and (d) equal a message that peer's application (or its handler's internal record request) handed over for this node. Non-trivial = a tampered / re-addressed datagram that still decodes was injected while the receiver held a session with the claimed source.".into()
    }
    fn assumptions() -> Vec<String> {
        vec![
            "AES-GCM forgeries by chance (2^-128) are treated as impossible".into(),
            "duplicates of genuine datagrams may be delivered again (the statement does not forbid message replay; handshake replay is C03)".into(),
        ]
    }
}
