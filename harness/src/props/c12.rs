//! C12 - Routing-table admission and update policy (scripted service; table observed through the
//! public API after every step).

use crate::{
    engines::svc::*,
    engines::{wire, wire_interp},
    ids, keys,
    props::wire_gen,
    runner::{CaseReport, Property, Tier},
};
use discv5::{
    verif::{whoareyou_ref, ConnectionDirection, HandlerIn, HandlerOut, RequestBody, RequestId, Response, ResponseBody},
    Enr, IpMode, NodeAddress, NodeContact, RequestError,
};
use proptest::prelude::*;
use serde::{Deserialize, Serialize};
use std::{
    collections::{HashMap, HashSet},
    net::SocketAddr,
};

#[derive(Clone, Copy, Debug, PartialEq, Eq, Hash, Serialize, Deserialize)]
pub enum FilterSel {
    AcceptAll,
    NoMarker,
    EvenPort,
}

fn f_all(_: &Enr) -> bool {
    true
}
fn f_no_marker(e: &Enr) -> bool {
    e.get_raw_rlp("mark").is_none()
}
fn f_even_port(e: &Enr) -> bool {
    e.udp4().map(|p| p % 2 == 0).unwrap_or(true)
}

fn filter_fn(f: FilterSel) -> fn(&Enr) -> bool {
    match f {
        FilterSel::AcceptAll => f_all,
        FilterSel::NoMarker => f_no_marker,
        FilterSel::EvenPort => f_even_port,
    }
}

#[derive(Clone, Copy, Debug, PartialEq, Eq, Hash, Serialize, Deserialize)]
pub struct Rec {
    pub key: u8,
    pub ver: u8,
    pub shape: Shape,
}

#[derive(Clone, Debug, PartialEq, Eq, Hash, Serialize, Deserialize)]
pub enum Step {
    /// a peer handshakes with us: who-are-you query, then Established / UnverifiableEnr as the
    /// handler would report it. `v6`: source address family; `matching`: the source equals the
    /// record's address of that family (otherwise another address)
    Incoming { rec: Rec, v6: bool, matching: bool, attach: bool },
    /// the first half of `Incoming` only: the handler asks who that is (and fixes the record of the
    /// session); the session report follows with `CompleteIncoming`, other things happen in between
    IncomingQuery { rec: Rec, v6: bool, matching: bool, attach: bool },
    CompleteIncoming,
    /// the handler reports Established(Outgoing) for an outstanding request (its contact's record)
    OutgoingEstablished { sel: u16 },
    /// the handler reports Established(Outgoing) with a record the service did not choose: the peer of
    /// a user-built, record-less contact (Discv5::talk_req / find_node_designated_peer) answered the
    /// record request with it
    OutgoingEstablishedWith { rec: Rec },
    AnswerFindNode { sel: u16, recs: Vec<Rec> },
    /// the first of two announced NODES packets arrives for a FINDNODE (a lookup's, or the service's own
    /// record request), then the request fails: what was received is processed under the same rules
    PartialThenFail { sel: u16, recs: Vec<Rec> },
    AnswerPing { sel: u16, seq_delta: u8 },
    Fail { sel: u16 },
    AddEnr { rec: Rec },
    RemoveNode { key: u8 },
    DisconnectNode { key: u8 },
    Lookup { far_from: u8 },
    Unverifiable { rec: Rec },
    /// a PING request arrives from the node of `rec` (over a session the handler has with it); it
    /// announces the sequence number of `rec`
    IncomingPing { rec: Rec, matching: bool },
}

#[derive(Clone, Debug, PartialEq, Eq, Hash, Serialize, Deserialize)]
pub struct Case {
    pub mode: Mode,
    pub filter: FilterSel,
    pub steps: Vec<Step>,
    /// the service gets pre-created sockets (ListenConfig::FromSockets) instead of listen addresses
    #[serde(default)]
    pub from_sockets: bool,
    /// companion case on the wire engine (real handlers): checks the post-condition of session
    /// reports that the scripted steps above rely on. When present, `steps` is empty.
    #[serde(default)]
    pub wire: Option<WireCase>,
}

#[derive(Clone, Debug, PartialEq, Eq, Hash, Serialize, Deserialize)]
pub struct WireCase {
    pub cfg: wire::WireConfig,
    pub ops: Vec<wire::Op>,
}

/// Post-condition of the real handler's session reports: a record reported as Established at a
/// socket either carries no UDP address of that socket's family or exactly that socket, and is a
/// record of the identity that handshook there.
#[derive(Default)]
struct SessionReports {
    seen_events: usize,
    established: u32,
    established_nat_noaddr: u32,
    unverifiable: u32,
    unverifiable_nat: u32,
    excluded: u32,
}

impl wire_interp::Oracle for SessionReports {
    fn after_step(&mut self, w: &wire::World, op: &wire::Op) -> Option<(String, String)> {
        let evs: Vec<wire::EvRec> = w.events[self.seen_events..].to_vec();
        self.seen_events = w.events.len();
        for e in evs {
            match &e.out {
                HandlerOut::Established(enr, sock, dir) => {
                    let advertised = match sock {
                        SocketAddr::V4(_) => enr.udp4_socket().map(SocketAddr::V4),
                        SocketAddr::V6(_) => enr.udp6_socket().map(SocketAddr::V6),
                    };
                    let peer = w.node_by_addr(sock);
                    let is_nat = peer.map(|j| w.cfg.nat_peers.contains(&(j as u8))).unwrap_or(false);
                    if let Some(j) = peer {
                        if w.nodes[j].id != enr.node_id().raw() {
                            return Some((
                                "admission/session-report-with-record-of-another-node".into(),
                                format!("node {} reported {} established at {sock} ({dir:?}) where node {j} lives (op {op:?})", e.node, enr.node_id()),
                            ));
                        }
                    }
                    if let Some(a) = advertised {
                        if a != *sock {
                            // the harness itself may have handed the handler a contact whose record
                            // disagrees with its address (not possible through the public API)
                            let harness_contact = w.submitted.iter().any(|s| s.from == e.node && s.to_addr == *sock && s.with_record);
                            if harness_contact {
                                self.excluded += 1;
                                continue;
                            }
                            return Some((
                                "admission/session-reported-with-record-address-differing-from-source".into(),
                                format!(
                                    "node {} reported Established({dir:?}) for {} at {sock}, but the record advertises {a}: the service would admit a node whose record address is not where its packets come from (op {op:?})",
                                    e.node,
                                    enr.node_id()
                                ),
                            ));
                        }
                    }
                    self.established += 1;
                    if is_nat {
                        self.established_nat_noaddr += 1;
                    }
                }
                HandlerOut::UnverifiableEnr { socket, .. } => {
                    self.unverifiable += 1;
                    if w.node_by_addr(socket).map(|j| w.cfg.nat_peers.contains(&(j as u8))).unwrap_or(false) {
                        self.unverifiable_nat += 1;
                    }
                }
                _ => {}
            }
        }
        None
    }
    fn report(&self, _w: &wire::World, rep: &mut CaseReport) {
        rep.class("wire-companion");
        rep.count("wire_established_reports", self.established as u64);
        rep.count("wire_established_reports_for_nat_peer_without_address", self.established_nat_noaddr as u64);
        rep.count("wire_unverifiable_reports", self.unverifiable as u64);
        rep.count("wire_unverifiable_reports_for_nat_peer", self.unverifiable_nat as u64);
        if self.excluded > 0 {
            rep.exclude("session report for a contact whose mismatching record the harness supplied itself", self.excluded as u64);
        }
        if self.unverifiable_nat > 0 || self.established_nat_noaddr > 0 {
            rep.class("wire-companion/nat-peer-handshake-judged");
            rep.nontrivial = true;
        }
    }
}

pub struct C12;

const KEY_BASE: u32 = 10;

fn kidx(k: u8) -> u32 {
    KEY_BASE + (k % 40) as u32
}

fn rec_enr(r: &Rec) -> Enr {
    shaped_record(kidx(r.key), r.ver.clamp(1, 5) as u64, r.shape)
}

struct Outstanding {
    id: RequestId,
    contact: NodeContact,
    body: RequestBody,
}

/// The harness's own notion of "contactable in the node's IP mode" (written from the crate's
/// documentation, not calling it): an IPv4 node needs a UDP4 socket, an IPv6 node a UDP6 socket
/// whose address is not an IPv4-mapped one, a dual-stack node either (IPv6 preferred).
fn contactable(m: Mode, e: &Enr) -> Option<SocketAddr> {
    let canon6 = e.udp6_socket().filter(|s| {
        let o = s.ip().octets();
        !(o[..10].iter().all(|b| *b == 0) && o[10] == 0xff && o[11] == 0xff)
    });
    match m {
        Mode::Ip4 => e.udp4_socket().map(SocketAddr::V4),
        Mode::Ip6 => canon6.map(SocketAddr::V6),
        Mode::Dual => canon6.map(SocketAddr::V6).or_else(|| e.udp4_socket().map(SocketAddr::V4)),
    }
}

#[allow(dead_code)]
fn ip_mode(m: Mode) -> IpMode {
    match m {
        Mode::Ip4 => IpMode::Ip4,
        Mode::Ip6 => IpMode::Ip6,
        Mode::Dual => IpMode::DualStack,
    }
}

async fn run(case: &Case, rep: &mut CaseReport) -> Option<(String, String)> {
    reset_globals();
    let filt = filter_fn(case.filter);
    let mut s = Svc::new(SvcConfig { key_idx: 0, mode: case.mode, table_filter: Some(filt), from_sockets: case.from_sockets, ..Default::default() }).await;
    if case.from_sockets {
        rep.class("service-given-pre-created-sockets");
    }
    let local_id = s.id;
    let mut allowed: HashSet<ids::Id> = HashSet::new();
    let mut outstanding: Vec<Outstanding> = Vec::new();
    let mut prev: HashMap<ids::Id, Enr> = HashMap::new();
    let mut nontrivial = false;
    let mut lookups = Vec::new();
    // a session whose who-are-you query was answered and whose report is still to come
    let mut deferred: Option<(Enr, SocketAddr, bool, discv5::enr::NodeId)> = None;

    for step in &case.steps {
        // what kind of input is this step?
        let mut network_learnt = false;
        let mut incoming_src: Option<(ids::Id, SocketAddr)> = None;
        // the id (if any) that THIS step may bring into the table: a session report or an explicit add
        let mut admits: Option<ids::Id> = None;
        s.take_outbox();
        match step {
            Step::CompleteIncoming => {
                let Some((session_enr, src, verifies, id)) = deferred.take() else { continue };
                allowed.insert(id.raw());
                network_learnt = true;
                if verifies {
                    incoming_src = Some((id.raw(), src));
                    admits = Some(id.raw());
                    rep.class("session-report-delayed-after-the-who-are-you-query");
                    s.inject(HandlerOut::Established(session_enr, src, ConnectionDirection::Incoming)).await;
                } else {
                    allowed.remove(&id.raw());
                    if prev.contains_key(&id.raw()) {
                        allowed.insert(id.raw());
                    }
                    s.inject(HandlerOut::UnverifiableEnr { enr: session_enr, socket: src, node_id: id }).await;
                }
            }
            Step::Incoming { rec, v6, matching, attach } | Step::IncomingQuery { rec, v6, matching, attach } => {
                let attached = rec_enr(rec);
                let id = attached.node_id();
                let rec_addr = if *v6 { attached.udp6_socket().map(SocketAddr::V6) } else { attached.udp4_socket().map(SocketAddr::V4) };
                let other = if *v6 { svc_addr6(800 + rec.key as u32) } else { svc_addr4(800 + rec.key as u32) };
                let src = if *matching { rec_addr.unwrap_or(other) } else { other };
                if (case.mode == Mode::Ip4 && *v6) || (case.mode == Mode::Ip6 && !*v6) {
                    rep.exclude("source-family-not-served-by-this-ip-mode", 1);
                    continue;
                }
                // the handler asks who that is
                s.inject(HandlerOut::WhoAreYou(whoareyou_ref(NodeAddress::new(src, id), [7u8; 12]))).await;
                let known: Option<Enr> = s.take_outbox().into_iter().find_map(|m| match m {
                    HandlerIn::WhoAreYou(_, e) => Some(e),
                    _ => None,
                })?;
                // the record of the session: the attached one if it is newer (or nothing is known)
                let session_enr = match (&known, *attach) {
                    (Some(k), true) if attached.seq() > k.seq() => attached.clone(),
                    (Some(k), _) => k.clone(),
                    (None, _) => attached.clone(),
                };
                // handler post-condition: address of the source's family equals the source or is absent
                let fam_addr = if *v6 { session_enr.udp6_socket().map(SocketAddr::V6) } else { session_enr.udp4_socket().map(SocketAddr::V4) };
                let verifies = fam_addr.map(|a| a == src).unwrap_or(true);
                if matches!(step, Step::IncomingQuery { .. }) {
                    deferred = Some((session_enr, src, verifies, id));
                    continue;
                }
                allowed.insert(id.raw());
                network_learnt = true;
                if verifies {
                    if !filt(&session_enr) || contactable(case.mode, &session_enr).is_none() {
                        nontrivial = true;
                        rep.class("established-with-record-failing-filter-or-not-contactable");
                    }
                    incoming_src = Some((id.raw(), src));
                    admits = Some(id.raw());
                    s.inject(HandlerOut::Established(session_enr, src, ConnectionDirection::Incoming)).await;
                } else {
                    // not allowed for admission: the handler denies such sessions
                    allowed.remove(&id.raw());
                    if prev.contains_key(&id.raw()) {
                        allowed.insert(id.raw());
                    }
                    s.inject(HandlerOut::UnverifiableEnr { enr: session_enr, socket: src, node_id: id }).await;
                    rep.class("unverifiable-enr-reported");
                }
            }
            Step::Unverifiable { rec } => {
                let e = rec_enr(rec);
                let id = e.node_id();
                s.inject(HandlerOut::UnverifiableEnr { enr: e, socket: svc_addr4(801), node_id: id }).await;
            }
            Step::OutgoingEstablished { sel } => {
                let cands: Vec<usize> = outstanding.iter().enumerate().filter(|(_, o)| o.contact.enr().is_some()).map(|(i, _)| i).collect();
                if cands.is_empty() {
                    continue;
                }
                let o = &outstanding[cands[(*sel as usize * cands.len()) >> 16]];
                let enr = o.contact.enr().unwrap();
                allowed.insert(enr.node_id().raw());
                admits = Some(enr.node_id().raw());
                network_learnt = true;
                if let Some(old) = prev.get(&enr.node_id().raw()) {
                    if old.seq() > enr.seq() {
                        rep.class("established-with-older-record-than-stored");
                        nontrivial = true;
                    }
                }
                s.inject(HandlerOut::Established(enr, o.contact.socket_addr(), ConnectionDirection::Outgoing)).await;
            }
            Step::OutgoingEstablishedWith { rec } => {
                let enr = rec_enr(rec);
                let sock = contactable(case.mode, &enr).unwrap_or(svc_addr4(kidx(rec.key)));
                allowed.insert(enr.node_id().raw());
                admits = Some(enr.node_id().raw());
                network_learnt = true;
                if contactable(case.mode, &enr).is_none() {
                    rep.class("outgoing-session-with-a-record-that-is-not-contactable");
                    nontrivial = true;
                }
                s.inject(HandlerOut::Established(enr, sock, ConnectionDirection::Outgoing)).await;
            }
            Step::AnswerFindNode { sel, recs } => {
                let cands: Vec<usize> = outstanding.iter().enumerate().filter(|(_, o)| matches!(o.body, RequestBody::FindNode { .. })).map(|(i, _)| i).collect();
                if cands.is_empty() {
                    continue;
                }
                let o = outstanding.remove(cands[(*sel as usize * cands.len()) >> 16]);
                let RequestBody::FindNode { distances } = &o.body else { unreachable!() };
                let responder = o.contact.node_id().raw();
                let mut nodes = Vec::new();
                if distances == &vec![0] {
                    // record request: the responder's own record in the chosen version
                    if let Some(r) = recs.first() {
                        let key = (KEY_BASE..KEY_BASE + 40).find(|k| keys::id_of(*k) == responder);
                        if let Some(k) = key {
                            nodes.push(shaped_record(k, r.ver.clamp(1, 5) as u64, r.shape));
                        }
                    }
                } else {
                    for r in recs {
                        let e = rec_enr(r);
                        let d = if e.node_id().raw() == responder { 0 } else { ids::log2(&responder, &e.node_id().raw()) as u64 };
                        if distances.contains(&d) {
                            if let Some(old) = prev.get(&e.node_id().raw()) {
                                if e.seq() > old.seq() {
                                    nontrivial = true;
                                    rep.class("discovered-newer-version-of-stored-id");
                                }
                            }
                            nodes.push(e);
                        }
                    }
                }
                network_learnt = true;
                s.inject(HandlerOut::Response(o.contact.node_address(), Box::new(Response { id: o.id.clone(), body: ResponseBody::Nodes { total: 1, nodes } }))).await;
            }
            Step::PartialThenFail { sel, recs } => {
                let cands: Vec<usize> = outstanding.iter().enumerate().filter(|(_, o)| matches!(o.body, RequestBody::FindNode { .. })).map(|(i, _)| i).collect();
                if cands.is_empty() {
                    continue;
                }
                let o = outstanding.remove(cands[(*sel as usize * cands.len()) >> 16]);
                let RequestBody::FindNode { distances } = &o.body else { unreachable!() };
                let responder = o.contact.node_id().raw();
                let mut nodes = Vec::new();
                if distances == &vec![0] {
                    if let Some(r) = recs.first() {
                        if let Some(k) = (KEY_BASE..KEY_BASE + 40).find(|k| keys::id_of(*k) == responder) {
                            nodes.push(shaped_record(k, r.ver.clamp(1, 5) as u64, r.shape));
                            rep.class("record-request-answered-partially-then-failed");
                        }
                    }
                } else {
                    for r in recs {
                        let e = rec_enr(r);
                        let d = if e.node_id().raw() == responder { 0 } else { ids::log2(&responder, &e.node_id().raw()) as u64 };
                        if distances.contains(&d) {
                            nodes.push(e);
                        }
                    }
                }
                network_learnt = true;
                s.inject(HandlerOut::Response(o.contact.node_address(), Box::new(Response { id: o.id.clone(), body: ResponseBody::Nodes { total: 2, nodes } }))).await;
                s.inject(HandlerOut::RequestFailed(o.id.clone(), RequestError::Timeout)).await;
            }
            Step::IncomingPing { rec, matching } => {
                let e = rec_enr(rec);
                let other = svc_addr4(800 + rec.key as u32);
                let src = if *matching { e.udp4_socket().map(SocketAddr::V4).unwrap_or(other) } else { other };
                if case.mode == Mode::Ip6 {
                    rep.exclude("source-family-not-served-by-this-ip-mode", 1);
                    continue;
                }
                if !prev.contains_key(&e.node_id().raw()) {
                    rep.class("ping-request-from-a-node-that-is-not-in-the-table");
                }
                s.inject(HandlerOut::Request(
                    NodeAddress::new(src, e.node_id()),
                    Box::new(discv5::verif::Request { id: RequestId(vec![9, rec.key, rec.ver]), body: RequestBody::Ping { enr_seq: e.seq() } }),
                ))
                .await;
            }
            Step::AnswerPing { sel, seq_delta } => {
                let cands: Vec<usize> = outstanding.iter().enumerate().filter(|(_, o)| matches!(o.body, RequestBody::Ping { .. })).map(|(i, _)| i).collect();
                if cands.is_empty() {
                    continue;
                }
                let o = outstanding.remove(cands[(*sel as usize * cands.len()) >> 16]);
                let stored = prev.get(&o.contact.node_id().raw()).map(|e| e.seq()).unwrap_or(1);
                let port = std::num::NonZeroU16::new(s.addr4.port()).unwrap();
                s.inject(HandlerOut::Response(
                    o.contact.node_address(),
                    Box::new(Response { id: o.id.clone(), body: ResponseBody::Pong { enr_seq: stored + (*seq_delta % 3) as u64, ip: s.addr4.ip(), port } }),
                ))
                .await;
            }
            Step::Fail { sel } => {
                if outstanding.is_empty() {
                    continue;
                }
                let o = outstanding.remove((*sel as usize * outstanding.len()) >> 16);
                s.inject(HandlerOut::RequestFailed(o.id.clone(), RequestError::Timeout)).await;
            }
            Step::AddEnr { rec } => {
                let e = rec_enr(rec);
                allowed.insert(e.node_id().raw());
                admits = Some(e.node_id().raw());
                let _ = s.d.add_enr(e);
                s.settle().await;
            }
            Step::RemoveNode { key } => {
                let _ = s.d.remove_node(&ids::node_id(&keys::id_of(kidx(*key))));
            }
            Step::DisconnectNode { key } => {
                let _ = s.d.disconnect_node(&ids::node_id(&keys::id_of(kidx(*key))));
            }
            Step::Lookup { far_from } => {
                // a target at log2 distance 256 from most pool ids: requests become [256, 255, 254]
                let mut t = keys::id_of(kidx(*far_from));
                t[0] ^= 0x80;
                lookups.push(tokio::spawn(s.d.find_node(ids::node_id(&t))));
                s.settle().await;
            }
        }
        s.settle().await;
        for m in s.take_outbox() {
            if let HandlerIn::Request(c, r) = m {
                outstanding.push(Outstanding { id: r.id.clone(), contact: c, body: r.body.clone() });
            }
        }
        if let Some(p) = crate::runner::take_panic() {
            return Some((format!("panic-in-task/{}", p.split(':').take(2).collect::<Vec<_>>().join(":")), p));
        }

        // ---- oracle over the table
        let entries = s.d.table_entries();
        let mut now: HashMap<ids::Id, Enr> = HashMap::new();
        for (id, enr, _st) in &entries {
            let idr = id.raw();
            now.insert(idr, enr.clone());
            if idr == local_id {
                return Some(("admission/local-node-in-table".into(), "the local node id is a routing-table entry".into()));
            }
            if enr.node_id() != *id {
                return Some(("admission/record-of-other-node-stored".into(), format!("entry {id} stores the record of {}", enr.node_id())));
            }
            if contactable(case.mode, enr).is_none() {
                return Some((
                    "admission/entry-not-contactable".into(),
                    format!("entry {id} (udp4 {:?}, udp6 {:?}) is not contactable in mode {:?} (after {step:?})", enr.udp4_socket(), enr.udp6_socket(), case.mode),
                ));
            }
            if !filt(enr) {
                return Some((
                    format!("admission/entry-fails-table-filter/{}", match step { Step::Incoming { .. } | Step::CompleteIncoming | Step::OutgoingEstablished { .. } | Step::OutgoingEstablishedWith { .. } => "via-session", Step::AnswerFindNode { .. } | Step::PartialThenFail { .. } => "via-nodes", _ => "other" }),
                    format!("entry {id} does not pass the configured table filter {:?} (after {step:?})", case.filter),
                ));
            }
            if !prev.contains_key(&idr) && admits != Some(idr) {
                return Some((
                    "admission/entry-appeared-without-a-session-report-or-add".into(),
                    format!("node {id} became a table entry in a step that was neither a session report for it nor an explicit add of it ({step:?}); it was {} before", if allowed.contains(&idr) { "a table entry at some earlier point and had been removed" } else { "never admitted" }),
                ));
            }
            if !allowed.contains(&idr) {
                return Some((
                    "admission/entry-without-session-or-explicit-add".into(),
                    format!("node {id} is in the table although no session with it was established and it was never added explicitly (after {step:?})"),
                ));
            }
        }
        // A3: single stack, incoming session introduces a node
        if let (Some((iid, src)), true) = (incoming_src, case.mode != Mode::Dual) {
            if !prev.contains_key(&iid) {
                if let Some(e) = now.get(&iid) {
                    if contactable(case.mode, e) != Some(src) {
                        return Some((
                            "admission/incoming-session-address-differs-from-source".into(),
                            format!("node admitted through an incoming session from {src} has the record address {:?}", contactable(case.mode, e)),
                        ));
                    }
                    rep.class("admitted-through-incoming-session");
                }
            }
        }
        // A4: replacement by network-learnt records
        if network_learnt {
            for (id, new) in &now {
                if let Some(old) = prev.get(id) {
                    if old != new && new.seq() <= old.seq() {
                        return Some((
                            format!("update/stored-record-replaced-by-not-newer-one/{}", match step { Step::AnswerFindNode { .. } | Step::PartialThenFail { .. } => "via-nodes", _ => "via-session" }),
                            format!("record of {} (seq {}, udp4 {:?}, udp6 {:?}) was replaced by seq {} (udp4 {:?}, udp6 {:?}) learnt from the network (after {step:?})", hex::encode(&id[..4]), old.seq(), old.udp4_socket(), old.udp6_socket(), new.seq(), new.udp4_socket(), new.udp6_socket()),
                        ));
                    }
                }
            }
        }
        prev = now;
    }
    for l in lookups {
        l.abort();
    }
    s.d.shutdown();
    rep.nontrivial = nontrivial;
    rep.count("table-size-at-end", prev.len() as u64);
    None
}

fn rec_strategy() -> BoxedStrategy<Rec> {
    let shape = prop_oneof![
        5 => Just(Shape::V4), 2 => Just(Shape::V6), 2 => Just(Shape::Both), 1 => Just(Shape::NoAddr),
        1 => Just(Shape::MappedV6), 2 => Just(Shape::V4Marked), 2 => Just(Shape::V4OddPort),
    ];
    (0u8..12, 1u8..=4, shape).prop_map(|(key, ver, shape)| Rec { key, ver, shape }).boxed()
}

impl Property for C12 {
    type Case = Case;
    const ID: &'static str = "C12";
    fn cases(tier: Tier) -> u64 {
        tier.pick(90_000, 1_000_000)
    }
    fn strategy(tier: Tier) -> BoxedStrategy<Case> {
        let n = tier.pick(30usize, 60usize);
        let step = prop_oneof![
            8 => (rec_strategy(), any::<bool>(), prop_oneof![4 => Just(true), 1 => Just(false)], prop_oneof![3 => Just(true), 1 => Just(false)])
                .prop_map(|(rec, v6, matching, attach)| Step::Incoming { rec, v6, matching, attach }),
            4 => any::<u16>().prop_map(|sel| Step::OutgoingEstablished { sel }),
            2 => rec_strategy().prop_map(|rec| Step::OutgoingEstablishedWith { rec }),
            9 => (any::<u16>(), proptest::collection::vec(rec_strategy(), 0..5), prop_oneof![2 => Just(None), 1 => rec_strategy().prop_map(Some)]).prop_map(|(sel, mut recs, dup)| {
                // in a third of the answers one node is listed twice, the later record being the older one
                if let (Some(d), Some(first)) = (dup, recs.first().cloned()) {
                    if first.ver > 1 {
                        recs.insert(1, Rec { key: first.key, ver: first.ver - 1, shape: d.shape });
                    }
                }
                Step::AnswerFindNode { sel, recs }
            }),
            2 => (any::<u16>(), proptest::collection::vec(rec_strategy(), 1..4)).prop_map(|(sel, recs)| Step::PartialThenFail { sel, recs }),
            3 => (any::<u16>(), 0u8..3).prop_map(|(sel, seq_delta)| Step::AnswerPing { sel, seq_delta }),
            2 => any::<u16>().prop_map(|sel| Step::Fail { sel }),
            5 => rec_strategy().prop_map(|rec| Step::AddEnr { rec }),
            1 => (0u8..12).prop_map(|key| Step::RemoveNode { key }),
            1 => (0u8..12).prop_map(|key| Step::DisconnectNode { key }),
            5 => (0u8..12).prop_map(|far_from| Step::Lookup { far_from }),
            1 => rec_strategy().prop_map(|rec| Step::Unverifiable { rec }),
            2 => (rec_strategy(), prop_oneof![3 => Just(true), 1 => Just(false)]).prop_map(|(rec, matching)| Step::IncomingPing { rec, matching }),
        ];
        // by construction: a table member announces a newer record (PONG with a higher seq), the
        // service asks it for that record, the member LEAVES the table before the answer arrives
        // (removed by the user / reported unverifiable), then the answer arrives
        let refresh_race = (0u8..12, 1u8..=3, any::<bool>(), prop_oneof![Just(Shape::V4), Just(Shape::Both)]).prop_map(|(key, ver, by_user, shape)| {
            let rec = Rec { key, ver, shape };
            vec![
                Step::Incoming { rec, v6: false, matching: true, attach: true },
                Step::AnswerPing { sel: 65535, seq_delta: 1 },
                if by_user { Step::RemoveNode { key } } else { Step::Unverifiable { rec } },
                Step::AnswerFindNode { sel: 65535, recs: vec![Rec { key, ver: ver + 1, shape }] },
            ]
        });
        // by construction: a running lookup has learnt a record of node X (from a NODES answer); then X,
        // which is not in the table, connects with ANOTHER record of itself (older or equally new, another
        // address) from the address that record advertises
        let session_vs_lookup = (0u8..12, 0u8..12, 1u8..=3, 0u8..=1, prop_oneof![Just(Shape::V4OddPort), Just(Shape::V4Marked), Just(Shape::Both)], proptest::collection::vec(rec_strategy(), 0..3)).prop_map(|(member, key, ver, newer, other_shape, more)| {
            let key = if key == member { (key + 1) % 12 } else { key };
            let mut recs = vec![Rec { key, ver: ver + newer, shape: other_shape }];
            recs.extend(more);
            vec![
                Step::Incoming { rec: Rec { key: member, ver: 1, shape: Shape::V4 }, v6: false, matching: true, attach: true },
                Step::Lookup { far_from: member },
                Step::AnswerFindNode { sel: 65535, recs },
                Step::Incoming { rec: Rec { key, ver, shape: Shape::V4 }, v6: false, matching: true, attach: true },
            ]
        });
        // the same, but the lookup learns the other record BETWEEN the handler's who-are-you query and
        // its session report (the handshake takes a round trip)
        let session_races_lookup = (0u8..12, 0u8..12, 1u8..=3, 0u8..=1, prop_oneof![Just(Shape::V4OddPort), Just(Shape::V4Marked), Just(Shape::Both)], proptest::collection::vec(rec_strategy(), 0..3)).prop_map(|(member, key, ver, newer, other_shape, more)| {
            let key = if key == member { (key + 1) % 12 } else { key };
            let mut recs = vec![Rec { key, ver: ver + newer, shape: other_shape }];
            recs.extend(more);
            vec![
                Step::Incoming { rec: Rec { key: member, ver: 1, shape: Shape::V4 }, v6: false, matching: true, attach: true },
                Step::Lookup { far_from: member },
                Step::IncomingQuery { rec: Rec { key, ver, shape: Shape::V4 }, v6: false, matching: true, attach: true },
                Step::AnswerFindNode { sel: 65535, recs },
                Step::CompleteIncoming,
            ]
        });
        // a member announces a newer record, the service asks for it, and the answer is an older / equal /
        // otherwise unacceptable version in the first of two packets - then the request fails
        let refresh_partial = (0u8..12, 2u8..=4, 0u8..=2, prop_oneof![Just(Shape::V4), Just(Shape::NoAddr), Just(Shape::V6), Just(Shape::V4Marked), Just(Shape::V4OddPort)]).prop_map(|(key, ver, back, shape)| {
            vec![
                Step::Incoming { rec: Rec { key, ver, shape: Shape::V4 }, v6: false, matching: true, attach: true },
                Step::AnswerPing { sel: 65535, seq_delta: 1 },
                Step::PartialThenFail { sel: 65535, recs: vec![Rec { key, ver: ver.saturating_sub(back).max(1), shape }] },
            ]
        });
        // by construction: a running lookup has learnt a record of node X, which is not in the table;
        // then a PING request of X arrives (a PING is not a session report: it admits nobody)
        let ping_from_heard = (0u8..12, 0u8..12, 1u8..=3, prop_oneof![Just(Shape::V4), Just(Shape::V4OddPort), Just(Shape::Both)]).prop_map(|(member, key, ver, shape)| {
            let key = if key == member { (key + 1) % 12 } else { key };
            vec![
                Step::Incoming { rec: Rec { key: member, ver: 1, shape: Shape::V4 }, v6: false, matching: true, attach: true },
                Step::Lookup { far_from: member },
                Step::AnswerFindNode { sel: 65535, recs: vec![Rec { key, ver, shape }] },
                Step::IncomingPing { rec: Rec { key, ver, shape }, matching: true },
            ]
        });
        let frag = prop_oneof![40 => step.prop_map(|x| vec![x]), 1 => refresh_race, 1 => session_vs_lookup, 1 => session_races_lookup, 1 => refresh_partial, 1 => ping_from_heard];
        let svc = (
            prop_oneof![3 => Just(Mode::Ip4), 1 => Just(Mode::Ip6), 2 => Just(Mode::Dual)],
            prop_oneof![Just(FilterSel::AcceptAll), Just(FilterSel::NoMarker), Just(FilterSel::EvenPort)],
            proptest::collection::vec(frag, 1..n),
            prop_oneof![3 => Just(false), 1 => Just(true)],
        )
            .prop_map(|(mode, filter, frags, from_sockets)| Case { mode, filter, steps: frags.into_iter().flatten().collect(), from_sockets, wire: None });
        let wn = tier.pick(25usize, 60usize);
        let companion = (wire_gen::config_strategy(false), 0u8..4, any::<u8>(), any::<bool>())
            .prop_flat_map(move |(cfg, kind, who, replay)| {
                let np = cfg.n_peers;
                let mix = if replay { wire_gen::Mix::Replay } else { wire_gen::Mix::Faulty };
                (Just(cfg), Just(kind), Just(who), wire_gen::ops_strategy(np, mix, wn))
            })
            .prop_map(|(mut cfg, kind, who, ops)| {
                // one or two nodes (possibly V itself) advertise something else than where they live
                let n = cfg.n_peers + 1;
                cfg.nat_peers = vec![who % n];
                if who >= 128 {
                    cfg.nat_peers.push((who / 16) % n);
                }
                cfg.nat_kind = kind;
                Case { mode: Mode::Ip4, filter: FilterSel::AcceptAll, steps: vec![], from_sockets: false, wire: Some(WireCase { cfg, ops }) }
            });
        prop_oneof![12 => svc, 1 => companion].boxed()
    }
    fn run(case: &Case) -> CaseReport {
        let mut rep = CaseReport::default();
        if let Some(wc) = &case.wire {
            let mut o = SessionReports::default();
            wire_interp::run_case_blocking(wc.cfg.clone(), &wc.ops, wire_interp::Drain::None, &mut o, &mut rep);
            return rep;
        }
        let v = run_blocking(run(case, &mut rep));
        if let Some((s, d)) = v {
            rep.fail(s, d);
        }
        rep
    }
    fn rule() -> String {
        "scripts (<=30 quick / <=60 thorough steps) against a real service with a scripted handler in IP mode Ip4 / Ip6 / DualStack (configured by listen addresses or, in a quarter of the cases, by pre-created sockets) and table filter accept-all / reject-marker-field / even-UDP-port-only: incoming handshakes modelled as the handler reports them (who-are-you query answered by the service, record of the session = newer of attached and known, Established if the address of the source's family matches or is absent, UnverifiableEnr otherwise), Established(Outgoing) for outstanding requests with their contact's record, NODES answers to the service's own FINDNODEs (new ids, newer / equal / older versions of stored ids, records failing the filter or not contactable; record requests answered with any version), PONGs announcing higher sequence numbers, request failures, add_enr / remove_node / disconnect_node, lookups; records of 12 pool keys x 4 versions x 7 shapes (v4, v6, both, none, v4-mapped v6, marked, odd port). After every step table_entries() is checked: A1 contactable in the IP mode, passes the filter, not local; A2 only ids with an earlier Established or add_enr; A3 single-stack incoming admission has the source address; A4 a network-learnt change of a stored record has a strictly higher seq. Non-trivial = an Established whose record fails the filter / is not contactable, a discovered newer version of a stored id, or an Established carrying an older record than stored.".into()
    }
    fn assumptions() -> Vec<String> {
        vec![
            "injected events obey the handler's post-conditions (record id = session id; address of the source's family equals the source or is absent; Established(Outgoing) carries the record of an outstanding request's contact); one case in 13 is a wire-engine companion that checks the first two on real handlers: 2..4 handlers of which one or two advertise another ip and port / another port / another ip / no address than where their packets come from, honest traffic with faults or replays, every Established report judged".into(),
            "add_enr is an explicit user action and may store any acceptable record (A4 is about network-learnt records)".into(),
        ]
    }
}
