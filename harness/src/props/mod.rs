pub mod c07;
pub mod c08;
pub mod c16;
