pub mod c07;
pub mod c08;
