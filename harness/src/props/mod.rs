pub mod c07;
pub mod c08;
pub mod c16;
pub mod c09;
pub mod c10;
pub mod c18;
pub mod c05;
pub mod c06;
