//! C13 - Filter exemptions track outstanding exchanges exactly.

use crate::{
    engines::{wire::*, wire_interp::*},
    props::wire_gen,
    runner::{CaseReport, Property, Tier},
};
use proptest::prelude::*;
use serde::{Deserialize, Serialize};
use std::{collections::HashMap, net::SocketAddr};

#[derive(Clone, Debug, PartialEq, Eq, Hash, Serialize, Deserialize)]
pub struct Case {
    pub cfg: WireConfig,
    pub ops: Vec<Op>,
    pub drain: Drain,
    /// receive-task companion: is an address that HAS an exemption really exempt (and one without not)?
    /// When present the wire schedule is not run.
    #[serde(default)]
    pub recv: Option<RecvExempt>,
}

/// One source address (IPv4, IPv6, IPv6 with a scope id and/or flow label as link-local peers have),
/// optionally banned and/or over its quota; datagrams arrive from it while an exemption for its
/// (normalised) address is present and after it was taken away.
#[derive(Clone, Debug, PartialEq, Eq, Hash, Serialize, Deserialize)]
pub struct RecvExempt {
    /// 0 IPv4, 1 IPv6, 2 IPv6 link-local with scope id, 3 IPv6 with flow label, 4 both
    pub addr_kind: u8,
    pub ban_ip: bool,
    pub ban_node: bool,
    /// unsolicited datagrams sent first to use up the quota (per-IP burst is 2)
    pub warmup: u8,
    /// exemption count while "waiting" (1..3)
    pub count: u8,
    /// packet kind of the judged datagrams: 0 message, 1 handshake, 2 WHOAREYOU
    pub kind: u8,
    /// the packet filter is switched off (the crate's default configuration): quotas do not apply,
    /// the ban list still does - and an exemption still overrides it
    #[serde(default)]
    pub filter_off: bool,
}

async fn run_recv(c: &RecvExempt, rep: &mut CaseReport) -> Option<(String, String)> {
    use discv5::{
        enr::NodeId,
        packet::{PacketKind, ProtocolIdentity},
        socket::{verif::{VDelivered, VRecv}, FilterConfig, RateLimiterBuilder},
        verif::{packet_encode, VPacket, PERMIT_BAN_LIST},
    };
    use std::net::{IpAddr, Ipv4Addr, Ipv6Addr, SocketAddrV6};
    use std::time::Duration;
    *PERMIT_BAN_LIST.write() = Default::default();
    let hour = Duration::from_secs(3600);
    let rl = RateLimiterBuilder::new().total_n_every(50, hour).ip_n_every(2, hour).node_n_every(2, hour).build().expect("quota");
    let cfg = FilterConfig { enabled: !c.filter_off, rate_limiter: Some(rl), max_nodes_per_ip: None, max_bans_per_ip: None };
    if c.filter_off {
        rep.class("receive-task-companion/packet-filter-switched-off");
    }
    let local = NodeId::new(&[0x66u8; 32]);
    let Ok(mut r) = VRecv::spawn(cfg, Some(hour), local).await else {
        return Some(("HARNESS/vrecv-spawn".into(), "could not start the receive task".into()));
    };
    // the address as the handler knows it (scope id and flow label zeroed) and as datagrams arrive
    let (known, arriving): (SocketAddr, SocketAddr) = match c.addr_kind % 5 {
        0 => {
            let a = SocketAddr::new(IpAddr::V4(Ipv4Addr::new(10, 13, 0, 7)), 30313);
            (a, a)
        }
        1 => {
            let a = SocketAddr::new(IpAddr::V6(Ipv6Addr::new(0x2001, 0xdb8, 0, 13, 0, 0, 0, 7)), 30313);
            (a, a)
        }
        k => {
            let ip = Ipv6Addr::new(0xfe80, 0, 0, 0, 0, 0, 0x13, 7);
            let (flow, scope) = match k {
                2 => (0, 3),
                3 => (0x12345, 0),
                _ => (7, 2),
            };
            (SocketAddr::V6(SocketAddrV6::new(ip, 30313, 0, 0)), SocketAddr::V6(SocketAddrV6::new(ip, 30313, flow, scope)))
        }
    };
    let node = NodeId::new(&[0x31u8; 32]);
    let mut seq = 0u64;
    let mut send = |r: &mut VRecv, kind: u8| -> [u8; 12] {
        seq += 1;
        let mut nonce = [0u8; 12];
        nonce[..8].copy_from_slice(&seq.to_be_bytes());
        let pk = match kind % 3 {
            0 => PacketKind::Message { src_id: node },
            1 => PacketKind::Handshake { src_id: node, id_nonce_sig: vec![7u8; 64], ephem_pubkey: vec![2u8; 33], enr_record: None },
            _ => PacketKind::WhoAreYou { id_nonce: [9u8; 16], enr_seq: 1 },
        };
        let message = if kind % 3 == 2 { vec![] } else { vec![0x5Au8; 24] };
        let bytes = packet_encode(VPacket { iv: seq as u128, message_nonce: nonce, protocol_identity: ProtocolIdentity::default(), kind: pk, message }, &local);
        let _ = r.inbound.send((arriving, bytes));
        nonce
    };
    let settle = || async {
        for _ in 0..3 {
            tokio::time::sleep(Duration::from_millis(1)).await;
        }
    };
    let handed_on = |out: &Vec<VDelivered>, nonce: [u8; 12]| out.iter().any(|d| matches!(d, VDelivered::Packet { message_nonce, .. } if *message_nonce == nonce));
    // use up the quota / get banned first (unsolicited traffic)
    for _ in 0..c.warmup.min(6) {
        send(&mut r, 0);
        settle().await;
        r.take_delivered();
    }
    {
        let mut l = PERMIT_BAN_LIST.write();
        if c.ban_ip {
            l.ban_ips.insert(known.ip(), None);
        }
        if c.ban_node {
            l.ban_nodes.insert(node, None);
        }
    }
    let hostile = c.ban_ip || c.ban_node || (c.warmup >= 3 && !c.filter_off) || PERMIT_BAN_LIST.read().ban_ips.contains_key(&known.ip());
    rep.class("receive-task-companion");
    rep.class(format!("receive-task-companion/source-kind-{}", c.addr_kind % 5));
    // while the node is waiting for something from that address, its datagrams pass
    r.expected_responses.write().insert(known, c.count.clamp(1, 3) as usize);
    for _ in 0..3 {
        let n = send(&mut r, c.kind);
        settle().await;
        let out = r.take_delivered();
        if !handed_on(&out, n) {
            return Some((
                "exemption/not-effective-in-the-receive-task".into(),
                format!("an exemption for {known} is present (the node is waiting for {} item(s) from it), but a datagram arriving from {arriving} was not handed to the handler (ip banned {}, node banned {}, {} unsolicited datagrams before)", c.count.clamp(1, 3), c.ban_ip, c.ban_node, c.warmup),
            ));
        }
    }
    if hostile {
        rep.nontrivial = true;
        rep.class("receive-task-companion/exemption-overrides-ban-or-quota");
    }
    // nothing outstanding any more: the address is treated like any other
    r.expected_responses.write().remove(&known);
    // ... and like any other that has not sent anything unsolicited yet: what arrived while the node was
    // waiting was awaited traffic - it is not held against the sender (no quota used up, no ban)
    if !c.ban_ip && !c.ban_node && c.warmup == 0 {
        let banned_now = {
            let l = PERMIT_BAN_LIST.read();
            l.ban_ips.contains_key(&known.ip()) || l.ban_nodes.contains_key(&node)
        };
        if banned_now {
            return Some((
                "exemption/awaited-traffic-held-against-the-sender".into(),
                format!("3 datagrams arrived from {arriving} while an exemption for {known} was present (the node was waiting for them); afterwards the sender is in the ban list although it never sent anything unsolicited (quota 2 per hour)"),
            ));
        }
        let n = send(&mut r, c.kind);
        settle().await;
        let out = r.take_delivered();
        if !handed_on(&out, n) {
            return Some((
                "exemption/awaited-traffic-held-against-the-sender".into(),
                format!("3 awaited datagrams arrived from {arriving}; its FIRST unsolicited datagram afterwards was refused (quota 2 per hour) - the awaited ones were counted against it"),
            ));
        }
        rep.class("receive-task-companion/first-unsolicited-datagram-after-awaited-traffic");
    }
    if c.ban_ip || (c.ban_node && c.kind % 3 != 2) {
        let n = send(&mut r, c.kind);
        settle().await;
        let out = r.take_delivered();
        if handed_on(&out, n) {
            return Some((
                "exemption/effective-without-entry".into(),
                format!("no exemption for {known} is present and the source is banned, but a datagram arriving from {arriving} was handed to the handler"),
            ));
        }
    }
    *PERMIT_BAN_LIST.write() = Default::default();
    None
}

pub struct C13;

#[derive(Default)]
pub struct Exemptions {
    nonempty_on_error_path: bool,
    max_total: usize,
    error_paths: Vec<String>,
}

impl Oracle for Exemptions {
    fn after_step(&mut self, w: &World, op: &Op) -> Option<(String, String)> {
        // E[a] = #active requests to socket a + #outstanding challenges to a, for this node (V = node 0)
        for (i, s) in w.snaps.iter().enumerate() {
            let mut expect: HashMap<SocketAddr, usize> = HashMap::new();
            for a in &s.active {
                *expect.entry(a.addr.socket_addr).or_insert(0) += 1;
            }
            for (c, _) in &s.challenges {
                *expect.entry(c.socket_addr).or_insert(0) += 1;
            }
            if expect != s.exemptions {
                // which way?
                let mut leaks = Vec::new();
                let mut missing = Vec::new();
                for (a, n) in &s.exemptions {
                    let e = expect.get(a).copied().unwrap_or(0);
                    if *n > e {
                        leaks.push(format!("{a}: {n} exemptions, {e} outstanding"));
                    }
                }
                for (a, e) in &expect {
                    let n = s.exemptions.get(a).copied().unwrap_or(0);
                    if n < *e {
                        missing.push(format!("{a}: {n} exemptions, {e} outstanding"));
                    }
                }
                let what = last_cause(w);
                if !leaks.is_empty() {
                    return Some((
                        format!("exemption/leak/after-{what}"),
                        format!("node {i}: exemption count exceeds outstanding items: {leaks:?} (op {op:?})"),
                    ));
                }
                return Some((
                    format!("exemption/missing/after-{what}"),
                    format!("node {i}: outstanding items without exemption: {missing:?} (op {op:?})"),
                ));
            }
            let total: usize = s.exemptions.values().sum();
            if i == 0 {
                self.max_total = self.max_total.max(total);
                if total > 0 {
                    if let Some(m) = w.step_injections().next().and_then(|j| j.manipulation.clone()) {
                        self.nonempty_on_error_path = true;
                        let k = m.split(':').next().unwrap_or("").to_string();
                        if !self.error_paths.contains(&k) {
                            self.error_paths.push(k);
                        }
                    }
                }
            }
        }
        None
    }

    fn finish(&mut self, w: &World) -> Option<(String, String)> {
        for (i, s) in w.snaps.iter().enumerate() {
            if !s.active.is_empty() || !s.challenges.is_empty() || !s.pending.is_empty() {
                // C04 owns "requests never complete"; here only the exemption claim is judged
                continue;
            }
            if !s.exemptions.is_empty() {
                return Some((
                    "exemption/remains-after-everything-completed".into(),
                    format!("node {i}: no request or challenge outstanding, exemptions left: {:?}", s.exemptions),
                ));
            }
        }
        None
    }

    fn report(&self, _w: &World, rep: &mut CaseReport) {
        rep.nontrivial = self.nonempty_on_error_path;
        for p in &self.error_paths {
            rep.class(format!("error-path/{p}"));
        }
        if self.max_total >= 3 {
            rep.class(">=3-simultaneous-exemptions");
        }
    }
}

/// A coarse label of what the last injected datagram of this step was (for signatures).
pub fn last_cause(w: &World) -> String {
    match w.step_injections().next() {
        None => "local-action".into(),
        Some(j) => {
            let kind = discv5::verif::packet_decode(&crate::ids::node_id(&w.nodes[j.to_node].id), Default::default(), &j.bytes)
                .map(|(p, _)| match p.kind {
                    discv5::packet::PacketKind::Message { .. } => "message",
                    discv5::packet::PacketKind::WhoAreYou { .. } => "whoareyou",
                    discv5::packet::PacketKind::Handshake { .. } => "handshake",
                })
                .unwrap_or("undecodable");
            match &j.manipulation {
                None => format!("genuine-{kind}"),
                Some(m) => format!("{}-{kind}", m.split(':').next().unwrap_or("")),
            }
        }
    }
}

impl Property for C13 {
    type Case = Case;
    const ID: &'static str = "C13";
    fn cases(tier: Tier) -> u64 {
        tier.pick(24_000, 400_000)
    }
    fn strategy(tier: Tier) -> BoxedStrategy<Case> {
        let n = tier.pick(40usize, 100usize);
        let wire_cases = (wire_gen::config_strategy(true), prop_oneof![Just(Drain::Answering), Just(Drain::Silent)])
            .prop_flat_map(move |(cfg, drain)| {
                let np = cfg.n_peers;
                (Just(cfg), wire_gen::ops_strategy(np, wire_gen::Mix::Exemptions, n), Just(drain))
            })
            .prop_map(|(cfg, ops, drain)| Case { cfg, ops, drain, recv: None });
        let wire = wire_cases;
        let companion = (wire_gen::config_strategy(false), 0u8..5, any::<bool>(), any::<bool>(), 0u8..6, 1u8..=3, 0u8..3, prop_oneof![2 => Just(false), 1 => Just(true)]).prop_map(|(cfg, addr_kind, ban_ip, ban_node, warmup, count, kind, filter_off)| Case {
            cfg,
            ops: vec![],
            drain: Drain::None,
            recv: Some(RecvExempt { addr_kind, ban_ip, ban_node, warmup, count, kind, filter_off }),
        });
        prop_oneof![60 => wire, 1 => companion].boxed()
    }
    fn run(case: &Case) -> CaseReport {
        let mut rep = CaseReport::default();
        if let Some(rc) = &case.recv {
            let rt = tokio::runtime::Builder::new_current_thread().enable_all().start_paused(true).build().expect("runtime");
            let v = rt.block_on(run_recv(rc, &mut rep));
            drop(rt);
            if let Some((s, d)) = v {
                rep.fail(s, d);
            }
            return rep;
        }
        let mut o = Exemptions::default();
        run_case_blocking(case.cfg.clone(), &case.ops, case.drain, &mut o, &mut rep);
        rep
    }
    fn rule() -> String {
        "schedules (<=40 quick / <=100 thorough ops) over 2..4 real handlers on the virtual wire with a paused clock: requests of all kinds in all directions (with and without a known record), single- and multi-packet answers, drops / duplicates / reordering / delays, who-are-you queries and requests answered immediately or held, peer restarts, plus adversarial ops (undecryptable probes, forged handshakes with valid and invalid signatures / ephemeral keys / records, replays, mutated datagrams, forged WHOAREYOUs echoing in-flight, stale or random nonces, requests to attacker-held addresses), packet filter on and off; every schedule ends with a drain (answering or silent network, time advanced by 2 x (retries+2) request timeouts). After EVERY step, for every handler and every socket address: exemption count = number of active request calls to that address + number of outstanding challenges to it (probe snapshot); after the drain no exemption remains when nothing is outstanding. One case in 61 is a receive-task companion (the real handle_inbound behind a channel, filter on, per-IP and per-node burst 2): a source address (IPv4, IPv6, link-local IPv6 arriving with a scope id and/or flow label) that is banned and/or over its quota sends message / handshake / WHOAREYOU datagrams while an exemption for its normalised address is present (all must be handed to the handler) and after it was removed (a banned source must be refused again). Non-trivial = an adversarial/faulty datagram was processed while the exemption map was non-empty.".into()
    }
    fn assumptions() -> Vec<String> {
        vec![
            "the handler's bookkeeping is read through the read-only probe hook (snapshot published at the top of the handler's main loop); the exemption map is the one shared with the receive task".into(),
            "virtual time (tokio paused clock); the receive path is the real handle_inbound fed from a channel".into(),
        ]
    }
}
