//! C13 - Filter exemptions track outstanding exchanges exactly.

use crate::{
    engines::{wire::*, wire_interp::*},
    props::wire_gen,
    runner::{CaseReport, Property, Tier},
};
use proptest::prelude::*;
use serde::{Deserialize, Serialize};
use std::{collections::HashMap, net::SocketAddr};

#[derive(Clone, Debug, PartialEq, Eq, Hash, Serialize, Deserialize)]
pub struct Case {
    pub cfg: WireConfig,
    pub ops: Vec<Op>,
    pub drain: Drain,
}

pub struct C13;

#[derive(Default)]
pub struct Exemptions {
    nonempty_on_error_path: bool,
    max_total: usize,
    error_paths: Vec<String>,
}

impl Oracle for Exemptions {
    fn after_step(&mut self, w: &World, op: &Op) -> Option<(String, String)> {
        // E[a] = #active requests to socket a + #outstanding challenges to a, for this node (V = node 0)
        for (i, s) in w.snaps.iter().enumerate() {
            let mut expect: HashMap<SocketAddr, usize> = HashMap::new();
            for a in &s.active {
                *expect.entry(a.addr.socket_addr).or_insert(0) += 1;
            }
            for (c, _) in &s.challenges {
                *expect.entry(c.socket_addr).or_insert(0) += 1;
            }
            if expect != s.exemptions {
                // which way?
                let mut leaks = Vec::new();
                let mut missing = Vec::new();
                for (a, n) in &s.exemptions {
                    let e = expect.get(a).copied().unwrap_or(0);
                    if *n > e {
                        leaks.push(format!("{a}: {n} exemptions, {e} outstanding"));
                    }
                }
                for (a, e) in &expect {
                    let n = s.exemptions.get(a).copied().unwrap_or(0);
                    if n < *e {
                        missing.push(format!("{a}: {n} exemptions, {e} outstanding"));
                    }
                }
                let what = last_cause(w);
                if !leaks.is_empty() {
                    return Some((
                        format!("exemption/leak/after-{what}"),
                        format!("node {i}: exemption count exceeds outstanding items: {leaks:?} (op {op:?})"),
                    ));
                }
                return Some((
                    format!("exemption/missing/after-{what}"),
                    format!("node {i}: outstanding items without exemption: {missing:?} (op {op:?})"),
                ));
            }
            let total: usize = s.exemptions.values().sum();
            if i == 0 {
                self.max_total = self.max_total.max(total);
                if total > 0 {
                    if let Some(m) = w.step_injections().next().and_then(|j| j.manipulation.clone()) {
                        self.nonempty_on_error_path = true;
                        let k = m.split(':').next().unwrap_or("").to_string();
                        if !self.error_paths.contains(&k) {
                            self.error_paths.push(k);
                        }
                    }
                }
            }
        }
        None
    }

    fn finish(&mut self, w: &World) -> Option<(String, String)> {
        for (i, s) in w.snaps.iter().enumerate() {
            if !s.active.is_empty() || !s.challenges.is_empty() || !s.pending.is_empty() {
                // C04 owns "requests never complete"; here only the exemption claim is judged
                continue;
            }
            if !s.exemptions.is_empty() {
                return Some((
                    "exemption/remains-after-everything-completed".into(),
                    format!("node {i}: no request or challenge outstanding, exemptions left: {:?}", s.exemptions),
                ));
            }
        }
        None
    }

    fn report(&self, _w: &World, rep: &mut CaseReport) {
        rep.nontrivial = self.nonempty_on_error_path;
        for p in &self.error_paths {
            rep.class(format!("error-path/{p}"));
        }
        if self.max_total >= 3 {
            rep.class(">=3-simultaneous-exemptions");
        }
    }
}

/// A coarse label of what the last injected datagram of this step was (for signatures).
pub fn last_cause(w: &World) -> String {
    match w.step_injections().next() {
        None => "local-action".into(),
        Some(j) => {
            let kind = discv5::verif::packet_decode(&crate::ids::node_id(&w.nodes[j.to_node].id), Default::default(), &j.bytes)
                .map(|(p, _)| match p.kind {
                    discv5::packet::PacketKind::Message { .. } => "message",
                    discv5::packet::PacketKind::WhoAreYou { .. } => "whoareyou",
                    discv5::packet::PacketKind::Handshake { .. } => "handshake",
                })
                .unwrap_or("undecodable");
            match &j.manipulation {
                None => format!("genuine-{kind}"),
                Some(m) => format!("{}-{kind}", m.split(':').next().unwrap_or("")),
            }
        }
    }
}

impl Property for C13 {
    type Case = Case;
    const ID: &'static str = "C13";
    fn cases(tier: Tier) -> u64 {
        tier.pick(24_000, 400_000)
    }
    fn strategy(tier: Tier) -> BoxedStrategy<Case> {
        let n = tier.pick(40usize, 100usize);
        (wire_gen::config_strategy(true), prop_oneof![Just(Drain::Answering), Just(Drain::Silent)])
            .prop_flat_map(move |(cfg, drain)| {
                let np = cfg.n_peers;
                (Just(cfg), wire_gen::ops_strategy(np, wire_gen::Mix::Exemptions, n), Just(drain))
            })
            .prop_map(|(cfg, ops, drain)| Case { cfg, ops, drain })
            .boxed()
    }
    fn run(case: &Case) -> CaseReport {
        let mut rep = CaseReport::default();
        let mut o = Exemptions::default();
        run_case_blocking(case.cfg.clone(), &case.ops, case.drain, &mut o, &mut rep);
        rep
    }
    fn rule() -> String {
        "schedules (<=40 quick / <=100 thorough ops) over 2..4 real handlers on the virtual wire with a paused clock: requests of all kinds in all directions (with and without a known record), single- and multi-packet answers, drops / duplicates / reordering / delays, who-are-you queries and requests answered immediately or held, peer restarts, plus adversarial ops (undecryptable probes, forged handshakes with valid and invalid signatures / ephemeral keys / records, replays, mutated datagrams, forged WHOAREYOUs echoing in-flight, stale or random nonces, requests to attacker-held addresses), packet filter on and off; every schedule ends with a drain (answering or silent network, time advanced by 2 x (retries+2) request timeouts). After EVERY step, for every handler and every socket address: exemption count = number of active request calls to that address + number of outstanding challenges to it (probe snapshot); after the drain no exemption remains when nothing is outstanding. Non-trivial = an adversarial/faulty datagram was processed while the exemption map was non-empty.".into()
    }
    fn assumptions() -> Vec<String> {
        vec![
            "the handler's bookkeeping is read through the read-only probe hook (snapshot published at the top of the handler's main loop); the exemption map is the one shared with the receive task".into(),
            "virtual time (tokio paused clock); the receive path is the real handle_inbound fed from a channel".into(),
        ]
    }
}
