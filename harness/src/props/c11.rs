//! C11 - NODES responses are validated; honest peers are never banned.
//! Requester Q and honest responder R are both real services behind scripted handlers.

use crate::{
    engines::svc::*,
    ids, keys,
    runner::{CaseReport, Property, Tier},
};
use discv5::{
    verif::{HandlerIn, HandlerOut, Request, RequestBody, RequestId, Response, ResponseBody, PERMIT_BAN_LIST},
    Enr, Event, NodeAddress, RequestError,
};
use proptest::prelude::*;
use serde::{Deserialize, Serialize};
use std::collections::HashSet;

const P_KEY: u32 = 1;

#[derive(Clone, Copy, Debug, PartialEq, Eq, Hash, Serialize, Deserialize)]
pub enum PlanOp {
    Drop(u8),
    Dup(u8),
    Swap(u8, u8),
}

#[derive(Clone, Copy, Debug, PartialEq, Eq, Hash, Serialize, Deserialize)]
pub enum RecKind {
    /// a pool record whose distance from the responder is NOT requested
    OffDistance(u16),
    /// a pool record at a requested distance (if one exists)
    Valid(u16),
    QOwn,
    POwn,
    DupPrev,
}

#[derive(Clone, Copy, Debug, PartialEq, Eq, Hash, Serialize, Deserialize)]
pub enum TotalSel {
    Consistent,
    Zero,
    One,
    Two,
    Fifteen,
    Sixteen,
    Seventeen,
    Big32,
    Max,
}

#[derive(Clone, Debug, PartialEq, Eq, Hash, Serialize, Deserialize)]
pub struct MalPacket {
    pub total: TotalSel,
    pub recs: Vec<RecKind>,
}

#[derive(Clone, Debug, PartialEq, Eq, Hash, Serialize, Deserialize)]
pub enum Answer {
    Honest {
        plan: Vec<PlanOp>,
        /// the request reaches the responder a second time (a retransmission) after these records were
        /// added to its table: it answers again, possibly with another split and total; the first
        /// answer loses its last packet, then the second answer arrives
        #[serde(default)]
        again: Option<Vec<(u16, u16)>>,
    },
    Malicious { packets: Vec<MalPacket> },
    /// more packets than the cap, each with one valid record
    Flood { n: u8 },
    /// the lookup is over (another peer's answer completed it) when this responder's answer arrives;
    /// the answer carries a record at a distance that was not requested (`off`) or only valid ones
    AfterLookupEnd { off: bool, picks: Vec<u16> },
}

#[derive(Clone, Debug, PartialEq, Eq, Hash, Serialize, Deserialize)]
pub struct Case {
    pub class: u16,
    pub pat: u8,
    /// records in the honest responder's table: (pool key, size)
    pub r_entries: Vec<(u16, u16)>,
    pub answer: Answer,
    /// packets delivered after the request completed (must have no effect)
    pub extras: Vec<MalPacket>,
    /// configured ban duration: 0 = default (1 h), 1 = permanent (None), 2 = 10 minutes
    #[serde(default)]
    pub ban_cfg: u8,
    /// further non-default configuration of the requester: bits 0-1 max_nodes_response (0 default, 1 -> 4,
    /// 2 -> 100, 3 -> 64), bit 2 a table filter that only admits records with an even UDP port, bit 3 the
    /// responder's IP is on the permit list
    #[serde(default)]
    pub q_cfg: u8,
}

fn even_port_filter(e: &Enr) -> bool {
    e.udp4().map(|p| p % 2 == 0).unwrap_or(true)
}

pub struct C11;

fn banned(p_addr: &std::net::SocketAddr, p_id: &ids::Id) -> (bool, bool) {
    let l = PERMIT_BAN_LIST.read();
    (l.ban_ips.contains_key(&p_addr.ip()), l.ban_nodes.contains_key(&ids::node_id(p_id)))
}

fn dist(p: &ids::Id, e: &Enr) -> u64 {
    ids::log2(p, &e.node_id().raw()) as u64
}

/// A lookup for ONE result. The only known peer A answers with two closer nodes B and C, both are
/// asked; B (the closest) answers and thereby ends the lookup while the request to C is still in
/// flight; then C - the responder under test - answers.
async fn run_after_lookup_end(case: &Case, off: bool, picks: &[u16], rep: &mut CaseReport) -> Option<(String, String)> {
    reset_globals();
    let mut q = Svc::new(SvcConfig { key_idx: 0, ..Default::default() }).await;
    let a_enr = shaped_record(P_KEY, 1, Shape::V4);
    let a_id = a_enr.node_id().raw();
    let a_addr = shaped_addr(P_KEY, Shape::V4, false).unwrap();
    if q.d.add_enr(a_enr.clone()).is_err() {
        return None;
    }
    // B: a pool node in the other half of the id space than A; the target is right next to it
    let pool = |i: u32| keys::padded_record(2 + i % 300, 1, 100);
    let Some(b) = (0..300u32).map(|i| pool(i + case.pat as u32 * 13)).find(|e| dist(&a_id, e) == 256 && e.node_id().raw() != q.id) else { return None };
    let b_id = b.node_id().raw();
    let mut target = b_id;
    target[31] ^= 1;
    let Some(c) = (0..300u32).map(|i| pool(i + 7 + case.class as u32)).find(|e| dist(&a_id, e) == 256 && e.node_id().raw() != b_id && e.node_id().raw() != q.id) else { return None };
    let c_id = c.node_id().raw();
    let sock = |e: &Enr| std::net::SocketAddr::V4(e.udp4_socket().expect("udp4"));
    q.take_outbox();
    let handle = tokio::spawn(q.d.find_node_predicate(ids::node_id(&target), Box::new(|_| true), 1));
    q.settle().await;
    let find = |out: Vec<HandlerIn>, who: &ids::Id| -> Option<(RequestId, Vec<u64>)> {
        out.into_iter().find_map(|m| match m {
            HandlerIn::Request(cn, r) if cn.node_id().raw() == *who => match r.body {
                RequestBody::FindNode { distances } => Some((r.id.clone(), distances)),
                _ => None,
            },
            _ => None,
        })
    };
    let Some((rid_a, ds_a)) = find(q.take_outbox(), &a_id) else {
        rep.class("after-lookup-end/setup-did-not-work");
        handle.abort();
        return None;
    };
    if !ds_a.contains(&256) {
        rep.class("after-lookup-end/setup-did-not-work");
        handle.abort();
        return None;
    }
    // A answers honestly with B and C
    q.inject(HandlerOut::Response(NodeAddress::new(a_addr, ids::node_id(&a_id)), Box::new(Response { id: rid_a, body: ResponseBody::Nodes { total: 1, nodes: vec![b.clone(), c.clone()] } }))).await;
    q.settle().await;
    let out = q.take_outbox();
    let to_b = find(out.clone(), &b_id);
    let to_c = find(out, &c_id);
    let (Some((rid_b, _)), Some((rid_c, ds_c))) = (to_b, to_c) else {
        rep.class("after-lookup-end/setup-did-not-work");
        handle.abort();
        return None;
    };
    // B answers: the lookup has its one result and ends; the request to C is still in flight
    q.inject(HandlerOut::Response(NodeAddress::new(sock(&b), ids::node_id(&b_id)), Box::new(Response { id: rid_b, body: ResponseBody::Nodes { total: 1, nodes: vec![] } }))).await;
    q.settle().await;
    if !handle.is_finished() {
        rep.class("after-lookup-end/lookup-did-not-end");
        handle.abort();
        return None;
    }
    q.take_events();
    // now C's answer arrives
    let wanted: HashSet<u64> = ds_c.iter().copied().collect();
    let mut nodes: Vec<Enr> = Vec::new();
    for x in picks.iter().take(3) {
        if let Some(e) = (0..300u32).map(|i| pool(*x as u32 + i)).find(|e| wanted.contains(&dist(&c_id, e)) && e.node_id().raw() != q.id && e.node_id().raw() != c_id) {
            if !nodes.iter().any(|n| n.node_id() == e.node_id()) {
                nodes.push(e);
            }
        }
    }
    if off {
        if let Some(e) = (0..300u32).map(pool).find(|e| !wanted.contains(&dist(&c_id, e)) && e.node_id().raw() != c_id && e.node_id().raw() != q.id) {
            nodes.push(e);
        }
    }
    let c_addr = sock(&c);
    q.inject(HandlerOut::Response(NodeAddress::new(c_addr, ids::node_id(&c_id)), Box::new(Response { id: rid_c, body: ResponseBody::Nodes { total: 1, nodes: nodes.clone() } }))).await;
    let (ban_ip, ban_node) = banned(&c_addr, &c_id);
    rep.class("answer-arrives-after-the-lookup-ended");
    rep.nontrivial = true;
    if off && !(ban_ip && ban_node) {
        return Some((
            "ban/malicious-responder-not-banned/answer-after-lookup-end".into(),
            format!("the responder's answer to {ds_c:?} arrived after another peer's answer had completed the lookup; it contains a record at a distance that was not requested, and the responder is not banned (ip {ban_ip}, node {ban_node})"),
        ));
    }
    if !off && (ban_ip || ban_node) {
        return Some(("ban/honest-responder-banned".into(), format!("an answer with records at the requested distances {ds_c:?} that arrived after the lookup had ended got the responder banned")));
    }
    q.d.shutdown();
    None
}

async fn run(case: &Case, rep: &mut CaseReport) -> Option<(String, String)> {
    if let Answer::AfterLookupEnd { off, picks } = &case.answer {
        return run_after_lookup_end(case, *off, picks, rep).await;
    }
    reset_globals();
    let ban_duration = match case.ban_cfg % 3 {
        0 => None,
        1 => Some(None),
        _ => Some(Some(std::time::Duration::from_secs(600))),
    };
    rep.class(match case.ban_cfg % 3 {
        0 => "ban-duration-default",
        1 => "ban-duration-permanent",
        _ => "ban-duration-10min",
    });
    let max_nodes_response = match case.q_cfg & 3 {
        0 => None,
        1 => Some(4usize),
        2 => Some(100),
        _ => Some(64),
    };
    let table_filter: Option<fn(&Enr) -> bool> = if case.q_cfg & 4 != 0 { Some(even_port_filter) } else { None };
    if max_nodes_response.is_some() {
        rep.class("requester-with-non-default-max-nodes-response");
    }
    if table_filter.is_some() {
        rep.class("requester-with-a-table-filter");
    }
    let mut q = Svc::new(SvcConfig { key_idx: 0, ban_duration, max_nodes_response, table_filter, ..Default::default() }).await;
    let p_enr = shaped_record(P_KEY, 1, Shape::V4);
    let p_id = p_enr.node_id().raw();
    let p_addr = shaped_addr(P_KEY, Shape::V4, false).unwrap();
    let p_na = NodeAddress::new(p_addr, ids::node_id(&p_id));
    if case.q_cfg & 8 != 0 {
        // the responder's IP is on the requester's permit list (its node id is not): a permit entry
        // exempts from filtering, it is no licence to answer with off-distance records
        q.d.permit_ip(p_addr.ip());
        rep.class("responder-ip-on-the-permit-list");
    }
    if q.d.add_enr(p_enr.clone()).is_err() {
        return None;
    }
    let target = ids::xor(&p_id, &ids::class_offset(case.class.min(256), case.pat));
    let fut = q.d.find_node(ids::node_id(&target));
    let handle = tokio::spawn(fut);
    q.settle().await;
    // the FINDNODE Q sends to P
    let out = q.take_outbox();
    let Some((rid, ds)) = out.iter().find_map(|m| match m {
        HandlerIn::Request(c, r) if c.node_id() == ids::node_id(&p_id) => match &r.body {
            RequestBody::FindNode { distances } => Some((r.id.clone(), distances.clone())),
            _ => None,
        },
        _ => None,
    }) else {
        return Some(("HARNESS-PANIC/no-findnode".into(), format!("Q did not send a FINDNODE to P: {out:?}")));
    };
    rep.count(format!("class-{:03}", case.class.min(256)), 1);
    let wanted: HashSet<u64> = ds.iter().copied().collect();
    let zero_with_others = wanted.contains(&0) && wanted.len() > 1;
    if ds.iter().any(|d| *d > 256) {
        return Some(("request/distance-out-of-range".into(), format!("lookup generated distances {ds:?}")));
    }
    q.take_events();

    // ---- build the answer
    let mut honest = false;
    let mut deliveries: Vec<Response> = Vec::new();
    let mut all_delivered = true;
    let mut honest_records: Vec<Enr> = Vec::new();
    let mut packets_total = 0usize;
    match &case.answer {
        Answer::Honest { plan, again } => {
            honest = true;
            let mut r = Svc::new(SvcConfig { key_idx: P_KEY, ..Default::default() }).await;
            for (k, size) in &case.r_entries {
                let key = 2 + (*k as u32 % 300);
                let _ = r.d.add_enr(keys::padded_record(key, 1, *size));
            }
            // R may also know Q
            r.take_outbox();
            r.inject(HandlerOut::Request(
                NodeAddress::new(q.addr4, q.node_id()),
                Box::new(Request { id: rid.clone(), body: RequestBody::FindNode { distances: ds.clone() } }),
            ))
            .await;
            let mut resps: Vec<Response> = r
                .take_outbox()
                .into_iter()
                .filter_map(|m| match m {
                    HandlerIn::Response(_, resp) => Some(*resp),
                    _ => None,
                })
                .collect();
            let first_len = resps.len();
            if let Some(more) = again {
                for (k, size) in more {
                    let key = 2 + (*k as u32 % 300);
                    let _ = r.d.add_enr(keys::padded_record(key, 1, *size));
                }
                r.inject(HandlerOut::Request(
                    NodeAddress::new(q.addr4, q.node_id()),
                    Box::new(Request { id: rid.clone(), body: RequestBody::FindNode { distances: ds.clone() } }),
                ))
                .await;
                let second: Vec<Response> = r
                    .take_outbox()
                    .into_iter()
                    .filter_map(|m| match m {
                        HandlerIn::Response(_, resp) => Some(*resp),
                        _ => None,
                    })
                    .collect();
                rep.class("honest-answered-twice(retransmitted request)");
                let t = |x: &Response| if let ResponseBody::Nodes { total, .. } = &x.body { *total } else { 0 };
                if first_len >= 2 && second.first().map(t) != resps.first().map(t) {
                    rep.class("honest-answered-twice/with-different-totals");
                    rep.nontrivial = true;
                }
                resps.extend(second);
            }
            packets_total = resps.len();
            for x in &resps {
                if let ResponseBody::Nodes { nodes, .. } = &x.body {
                    honest_records.extend(nodes.iter().cloned());
                }
            }
            let mut order: Vec<usize> = (0..resps.len()).collect();
            if again.is_some() && first_len >= 2 {
                order.remove(first_len - 1);
            }
            for op in plan {
                if order.is_empty() {
                    break;
                }
                match op {
                    PlanOp::Drop(i) => {
                        order.remove(*i as usize % order.len());
                    }
                    PlanOp::Dup(i) => {
                        let x = order[*i as usize % order.len()];
                        order.push(x);
                    }
                    PlanOp::Swap(i, j) => {
                        let (a, b) = (*i as usize % order.len(), *j as usize % order.len());
                        order.swap(a, b);
                    }
                }
            }
            let distinct: HashSet<usize> = order.iter().copied().collect();
            // complete and duplicate-free (a duplicate may complete the request before the last packet)
            all_delivered = distinct.len() == resps.len() && order.len() == resps.len() && again.is_none();
            deliveries = order.into_iter().map(|i| resps[i].clone()).collect();
            if !plan.is_empty() {
                rep.class("honest-with-loss/dup/reorder");
            }
            if resps.len() >= 2 {
                rep.class("honest-multi-packet");
            }
            r.d.shutdown();
        }
        Answer::Malicious { packets } => {
            let n = packets.len() as u64;
            let mut prev: Option<Enr> = None;
            for mp in packets {
                let mut nodes = Vec::new();
                for rk in &mp.recs {
                    let e = match rk {
                        RecKind::OffDistance(x) => (0..300u32).map(|i| keys::padded_record(2 + (*x as u32 + i) % 300, 1, 100)).find(|e| !wanted.contains(&dist(&p_id, e))),
                        RecKind::Valid(x) => (0..300u32).map(|i| keys::padded_record(2 + (*x as u32 + i) % 300, 1, 100)).find(|e| wanted.contains(&dist(&p_id, e))),
                        RecKind::QOwn => Some(q.d.local_enr()),
                        RecKind::POwn => Some(p_enr.clone()),
                        RecKind::DupPrev => prev.clone(),
                    };
                    if let Some(e) = e {
                        prev = Some(e.clone());
                        nodes.push(e);
                    }
                }
                deliveries.push(Response { id: rid.clone(), body: ResponseBody::Nodes { total: total_of(mp.total, n), nodes } });
            }
            packets_total = deliveries.len();
        }
        Answer::AfterLookupEnd { .. } => unreachable!("handled by run_after_lookup_end"),
        Answer::Flood { n } => {
            let n = (*n as usize).clamp(16, 40);
            for i in 0..n {
                let e = (0..300u32).map(|j| keys::padded_record(2 + (i as u32 * 7 + j) % 300, 1, 100)).find(|e| wanted.contains(&dist(&p_id, e)));
                deliveries.push(Response { id: rid.clone(), body: ResponseBody::Nodes { total: n as u64, nodes: e.into_iter().collect() } });
            }
            packets_total = n;
            rep.class("flood->15-packets");
        }
    }

    // ---- deliver, tracking what the service may legitimately have processed
    let mut discovered: Vec<Enr> = Vec::new();
    let mut processed_offdistance = false;
    let mut completed = false;
    let mut delivered_count = 0usize;
    let mut late_records: Vec<ids::Id> = Vec::new(); // records that only appear in packets #16+
    // the requester stops collecting once it holds max_nodes_response records: the packet that arrives
    // then is still validated, and completes the request
    let q_max_model = max_nodes_response.unwrap_or(16);
    let mut received_valid = 0usize;
    let mut early_ids: HashSet<ids::Id> = HashSet::new();
    // valid records of the packets the request collects until it completes (a packet announcing a total
    // <= 1 completes the request on its own: what was collected before is dropped by design)
    let mut collected_valid: Vec<ids::Id> = Vec::new();
    for resp in &deliveries {
        let ResponseBody::Nodes { total, nodes } = &resp.body else { continue };
        delivered_count += 1;
        let before_complete = !completed;
        let holds_enough = received_valid >= q_max_model;
        if before_complete && delivered_count <= 15 {
            for e in nodes {
                let dd = if e.node_id().raw() == p_id { 0 } else { dist(&p_id, e) };
                if wanted.contains(&dd) {
                    received_valid += 1;
                }
            }
            if *total <= 1 {
                collected_valid.clear();
            }
            for e in nodes {
                let dd = if e.node_id().raw() == p_id { 0 } else { dist(&p_id, e) };
                if wanted.contains(&dd) && e.node_id().raw() != q.id {
                    collected_valid.push(e.node_id().raw());
                }
            }
            for e in nodes {
                early_ids.insert(e.node_id().raw());
                let d = if e.node_id().raw() == p_id { 0 } else { dist(&p_id, e) };
                if !wanted.contains(&d) {
                    processed_offdistance = true;
                }
            }
        } else {
            for e in nodes {
                late_records.push(e.node_id().raw());
            }
        }
        q.inject(HandlerOut::Response(p_na.clone(), Box::new(resp.clone()))).await;
        for ev in q.take_events() {
            if let Event::Discovered(e) = ev {
                discovered.push(e);
            }
        }
        // completion model (external): the request is complete once as many packets as announced
        // by the packet that completes it were processed, or 15
        if before_complete && (*total <= 1 || delivered_count as u64 >= *total || delivered_count >= 15 || holds_enough) {
            completed = true;
        }
    }
    if !completed {
        // the transport reports the time-out of the incomplete request
        q.inject(HandlerOut::RequestFailed(rid.clone(), RequestError::Timeout)).await;
        for ev in q.take_events() {
            if let Event::Discovered(e) = ev {
                discovered.push(e);
            }
        }
        rep.class("incomplete-then-timeout");
    }

    // ---- oracle
    let (ban_ip, ban_node) = banned(&p_addr, &p_id);
    // 1. accepted records are at requested distances
    for e in &discovered {
        let eid = e.node_id().raw();
        let d = if eid == p_id { 0 } else { dist(&p_id, e) };
        if !wanted.contains(&d) {
            return Some((
                format!("nodes/accepted-record-at-unrequested-distance{}", if ds == vec![0] { "/enr-request" } else { "" }),
                format!("record {} at distance {d} from the responder was accepted (Discovered) for a request of {ds:?}", hex::encode(&eid[..4])),
            ));
        }
        if eid == q.id {
            return Some(("nodes/own-record-reported".into(), "the local node's own record was reported as discovered".into()));
        }
    }
    // 4. nothing from packet 16+ / after completion
    for l in &late_records {
        if !early_ids.contains(l) && discovered.iter().any(|e| e.node_id().raw() == *l) {
            return Some((
                "nodes/record-from-packet-beyond-cap-or-after-completion-accepted".into(),
                format!("record {} only appeared in a packet after the 15th / after completion but was accepted", hex::encode(&l[..4])),
            ));
        }
    }
    if honest {
        // 3. never banned
        if ban_ip || ban_node {
            return Some((
                format!("ban/honest-responder-banned{}", if zero_with_others { "/distance-0-with-others" } else { "" }),
                format!("the responder answered {ds:?} exactly as this implementation prescribes ({packets_total} packets) and was banned (ip {ban_ip}, node {ban_node})"),
            ));
        }
        // 1c. whatever the request collected until it completed is handed on in full - also when that is
        // more than max_nodes_response records (the requester stops COLLECTING then, it does not cut)
        if completed {
            let got: HashSet<ids::Id> = discovered.iter().map(|e| e.node_id().raw()).collect();
            if collected_valid.len() > max_nodes_response.unwrap_or(16) {
                rep.class("honest-answer/more-valid-records-collected-than-max-nodes-response");
            }
            for eid in &collected_valid {
                if !got.contains(eid) {
                    return Some((
                        "nodes/valid-record-dropped".into(),
                        format!("record {} of an honest answer to {ds:?} arrived in a packet the request collected before it completed ({} valid records collected, max_nodes_response {}), but it was not accepted", hex::encode(&eid[..4]), collected_valid.len(), max_nodes_response.unwrap_or(16)),
                    ));
                }
            }
        }
        // 1b. nothing valid is missing from a loss-free answer (unless the requester is configured to
        // stop collecting early: it completes the request once it holds max_nodes_response records,
        // and later packets of an answer are then ignored by design)
        let q_max = max_nodes_response.unwrap_or(16);
        if all_delivered && honest_records.len() > q_max {
            rep.class("honest-answer-longer-than-the-requester's-max-nodes-response(1b not evaluated)");
        }
        if all_delivered && honest_records.len() <= q_max {
            let got: HashSet<ids::Id> = discovered.iter().map(|e| e.node_id().raw()).collect();
            for e in &honest_records {
                let eid = e.node_id().raw();
                if eid == q.id {
                    continue;
                }
                if !got.contains(&eid) {
                    return Some((
                        "nodes/valid-record-dropped".into(),
                        format!("record {} (distance {}) of a complete honest answer to {ds:?} was not accepted", hex::encode(&eid[..4]), if eid == p_id { 0 } else { dist(&p_id, e) }),
                    ));
                }
            }
        }
    } else if processed_offdistance && !(ban_ip && ban_node) {
        // 2. off-distance record => banned
        return Some((
            format!("ban/malicious-responder-not-banned{}", if ds == vec![0] { "/enr-request" } else { "" }),
            format!("the responder sent a record at a distance outside {ds:?} in a processed packet and is not banned (ip {ban_ip}, node {ban_node})"),
        ));
    }

    // ---- extras after completion: no effect
    if completed && !case.extras.is_empty() {
        let table_before = q.d.table_entries();
        let bans_before = banned(&p_addr, &p_id);
        let n = case.extras.len() as u64;
        for mp in &case.extras {
            let mut nodes = Vec::new();
            for rk in &mp.recs {
                let e = match rk {
                    RecKind::OffDistance(x) | RecKind::Valid(x) => Some(keys::padded_record(302 + (*x as u32 % 50), 1, 100)),
                    RecKind::QOwn => Some(q.d.local_enr()),
                    RecKind::POwn => Some(p_enr.clone()),
                    RecKind::DupPrev => None,
                };
                nodes.extend(e);
            }
            q.inject(HandlerOut::Response(p_na.clone(), Box::new(Response { id: rid.clone(), body: ResponseBody::Nodes { total: total_of(mp.total, n), nodes } }))).await;
        }
        let evs = q.take_events();
        if let Some(Event::Discovered(e)) = evs.iter().find(|e| matches!(e, Event::Discovered(x) if (302..352).any(|k| keys::id_of(k) == x.node_id().raw()))) {
            return Some(("nodes/packet-after-completion-had-effect".into(), format!("a NODES packet delivered after the request completed produced Discovered({})", e.node_id())));
        }
        if banned(&p_addr, &p_id) != bans_before {
            return Some(("nodes/packet-after-completion-changed-bans".into(), "a NODES packet delivered after completion changed the ban list".into()));
        }
        let table_after = q.d.table_entries();
        if table_before.len() != table_after.len() || table_before.iter().zip(table_after.iter()).any(|(a, b)| a.0 != b.0 || a.1 != b.1) {
            return Some(("nodes/packet-after-completion-changed-table".into(), "a NODES packet delivered after completion changed the routing table".into()));
        }
        rep.class("packets-after-completion");
    }

    // ---- let the lookup finish: every further request fails
    let mut finished = false;
    for _ in 0..200 {
        if handle.is_finished() {
            finished = true;
            break;
        }
        let out = q.take_outbox();
        let mut any = false;
        for m in out {
            if let HandlerIn::Request(_, r) = m {
                any = true;
                q.inject(HandlerOut::RequestFailed(r.id.clone(), RequestError::Timeout)).await;
            }
        }
        if !any {
            // let per-peer query timeouts elapse (a FINDNODE that failed after an empty partial
            // answer is reported to the query neither as success nor as failure; the peer timeout
            // is what moves the lookup on), then wake the service so that it polls its queries
            tokio::time::sleep(std::time::Duration::from_millis(2100)).await;
            q.inject(HandlerOut::RequestFailed(RequestId(vec![0xEE]), RequestError::Timeout)).await;
        }
    }
    if !finished {
        handle.abort();
        rep.class("lookup-not-finished-within-bound(not judged here; C09)");
        if std::env::var("VERIF_DEBUG_UNFINISHED").is_ok() { return Some(("DEBUG/unfinished".into(), format!("ds={ds:?} completed={completed} delivered={delivered_count}"))); }
    }
    q.d.shutdown();
    if let Some(p) = crate::runner::take_panic() {
        return Some((format!("panic-in-task/{}", p.split(':').take(2).collect::<Vec<_>>().join(":")), p));
    }
    rep.nontrivial = zero_with_others || packets_total >= 2 || (completed && !case.extras.is_empty());
    if zero_with_others {
        rep.class("request-with-0-and-other-distances");
    }
    if ds == vec![0] {
        rep.class("request-[0]");
    }
    None
}

fn total_of(t: TotalSel, n: u64) -> u64 {
    match t {
        TotalSel::Consistent => n,
        TotalSel::Zero => 0,
        TotalSel::One => 1,
        TotalSel::Two => 2,
        TotalSel::Fifteen => 15,
        TotalSel::Sixteen => 16,
        TotalSel::Seventeen => 17,
        TotalSel::Big32 => 1 << 32,
        TotalSel::Max => u64::MAX,
    }
}

fn mal_packet() -> BoxedStrategy<MalPacket> {
    let total = prop_oneof![
        6 => Just(TotalSel::Consistent),
        1 => Just(TotalSel::Zero), 1 => Just(TotalSel::One), 1 => Just(TotalSel::Two), 1 => Just(TotalSel::Fifteen),
        1 => Just(TotalSel::Sixteen), 1 => Just(TotalSel::Seventeen), 1 => Just(TotalSel::Big32), 1 => Just(TotalSel::Max),
    ];
    let rec = prop_oneof![
        4 => any::<u16>().prop_map(RecKind::OffDistance),
        5 => any::<u16>().prop_map(RecKind::Valid),
        1 => Just(RecKind::QOwn),
        2 => Just(RecKind::POwn),
        1 => Just(RecKind::DupPrev),
    ];
    (total, proptest::collection::vec(rec, 0..4)).prop_map(|(total, recs)| MalPacket { total, recs }).boxed()
}

impl Property for C11 {
    type Case = Case;
    const ID: &'static str = "C11";
    fn cases(tier: Tier) -> u64 {
        tier.pick(12_000, 150_000)
    }
    fn strategy(_tier: Tier) -> BoxedStrategy<Case> {
        let class = prop_oneof![
            3 => 0u16..=256,
            2 => 0u16..=3,
            3 => 248u16..=256,
        ];
        let plan = proptest::collection::vec(
            prop_oneof![any::<u8>().prop_map(PlanOp::Drop), any::<u8>().prop_map(PlanOp::Dup), (any::<u8>(), any::<u8>()).prop_map(|(a, b)| PlanOp::Swap(a, b))],
            0..4,
        );
        let answer = prop_oneof![
            5 => prop_oneof![3 => Just(vec![]), 2 => plan.clone()].prop_map(|plan| Answer::Honest { plan, again: None }),
            2 => (prop_oneof![2 => Just(vec![]), 1 => plan], proptest::collection::vec((any::<u16>(), prop_oneof![3 => Just(300u16), 1 => 100u16..=300]), 1..12)).prop_map(|(plan, more)| Answer::Honest { plan, again: Some(more) }),
            4 => proptest::collection::vec(mal_packet(), 1..5).prop_map(|packets| Answer::Malicious { packets }),
            1 => (16u8..40).prop_map(|n| Answer::Flood { n }),
            1 => (prop_oneof![3 => Just(true), 1 => Just(false)], proptest::collection::vec(any::<u16>(), 0..3)).prop_map(|(off, picks)| Answer::AfterLookupEnd { off, picks }),
        ];
        (
            class,
            0u8..7,
            proptest::collection::vec((any::<u16>(), prop_oneof![Just(300u16), Just(100u16), 100u16..=300]), 0..80),
            answer,
            prop_oneof![2 => Just(vec![]), 1 => proptest::collection::vec(mal_packet(), 1..3)],
            prop_oneof![2 => Just(0u8), 1 => Just(1u8), 1 => Just(2u8)],
            prop_oneof![4 => Just(0u8), 3 => 0u8..16],
        )
            .prop_map(|(class, pat, r_entries, answer, extras, ban_cfg, q_cfg)| Case { class, pat, r_entries, answer, extras, ban_cfg, q_cfg })
            .boxed()
    }
    fn extra(_tier: Tier, _seed: u64, shard: usize, nshards: usize) -> Vec<(Case, CaseReport)> {
        // every log2 class 0..=256 once per run with a complete honest answer (coverage by construction)
        (0u16..=256)
            .filter(|c| *c as usize % nshards == shard)
            .map(|class| {
                let case = Case {
                    class,
                    pat: (class % 7) as u8,
                    r_entries: (0..40u16).map(|i| (i * 7 + class, 300)).collect(),
                    answer: Answer::Honest { plan: vec![], again: None },
                    extras: vec![],
                    ban_cfg: (class % 3) as u8,
                    q_cfg: (class % 8) as u8,
                };
                let rep = crate::runner::run_guarded::<C11>(&case);
                (case, rep)
            })
            .collect()
    }
    fn run(case: &Case) -> CaseReport {
        let mut rep = CaseReport::default();
        let v = run_blocking(run(case, &mut rep));
        if let Some((s, d)) = v {
            rep.fail(s, d);
        }
        rep
    }
    fn rule() -> String {
        "requester Q (real service, scripted handler) with peer P in its table starts find_node(T) with T = P.id XOR d for EVERY log2 class 0..256 of d (low-bit patterns varied); the FINDNODE Q generates is read off the scripted channel. Honest answers come from a second real service R whose local record is P's and whose table holds 0..79 pool records (100..300 bytes): Q's request is injected into R and R's NODES packets - whatever split and total R chooses - are carried back unchanged, complete or with loss / duplication / reordering (incomplete requests are timed out by the scripted transport); in one case in 6 the request reaches R a second time after 1..11 records were added to its table (a retransmission): the first answer loses its last packet and the second answer - possibly announcing another total - follows. Malicious answers are built by the harness: records at unrequested distances, Q's own record, P's own record, duplicates, totals in {0,1,2,15,16,17,2^32,2^64-1, consistent}, floods of 16..39 packets, packets after completion. Oracle: every Discovered record is at a requested distance from the responder (its own record counting as 0); a complete honest answer loses no record; an honest responder is never in the ban list; a processed off-distance record bans the responder (id and IP); records only carried by packets beyond the 15th or after completion have no effect; packets after completion change neither events, bans nor table. Non-trivial = the request contains 0 together with other distances, or the answer has >=2 packets, or packets follow completion.".into()
    }
    fn assumptions() -> Vec<String> {
        vec![
            "the honest responder is this implementation itself (the statement's 'as this implementation prescribes')".into(),
            "record ids are key hashes, so honest answers only contain records for distance classes >= ~248 (and the responder's own record for class <= 1); all 257 classes are covered for request generation and for the own-record path".into(),
            "the process-global ban list is reset at the start of every case; cases run sequentially inside a worker process".into(),
        ]
    }
}
