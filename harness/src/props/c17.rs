//! C17 - External address is updated only by a clear majority.

use crate::{
    engines::svc::*,
    ids, keys,
    runner::{CaseReport, Property, Tier},
};
use discv5::{
    verif::{ConnectionDirection, HandlerIn, HandlerOut, RequestBody, RequestId, Response, ResponseBody},
    Event, NodeAddress, NodeContact,
};
use proptest::prelude::*;
use serde::{Deserialize, Serialize};
use std::{
    collections::HashMap,
    net::{IpAddr, Ipv4Addr, Ipv6Addr, SocketAddr},
    time::Duration,
};

#[derive(Clone, Debug, PartialEq, Eq, Hash, Serialize, Deserialize)]
pub enum Step {
    /// voter answers its outstanding PING naming candidate `cand`
    Pong { voter: u8, cand: u8 },
    /// the ping interval elapses: the service pings its table members again
    NextRound,
    /// a voter's PING fails
    Fail { voter: u8 },
    /// (expiry regime only) real time passes until every vote cast so far has certainly expired
    RealIdle,
    /// (expiry regime only) a real sleep of 50 ms - shorter than the 80 ms vote duration
    Nap,
    /// the application stops reading its event stream while 70 further sessions are reported (two
    /// events each; the stream holds 30 or 100 events), then catches up
    EventBacklog,
    /// the application sets the record's UDP socket itself (Discv5::update_local_enr_socket) to a
    /// candidate address - a change that does not come from PONGs; the votes stay as they are
    ManualUpdate { cand: u8 },
    /// the voter moves: a new session with a newer record advertising another socket (same node id);
    /// its later PONGs come from there - it is still ONE peer with one vote
    Move { voter: u8 },
}

#[derive(Clone, Debug, PartialEq, Eq, Hash, Serialize, Deserialize)]
pub struct Case {
    pub dual: bool,
    pub min: u8,
    pub n_voters: u8,
    /// voters with index >= this are connected through INCOMING sessions (not eligible in single stack)
    pub first_incoming: u8,
    pub n_cands: u8,
    pub steps: Vec<Step>,
    /// expiry regime: votes live for 80 ms of REAL time (IpVote reads std::time::Instant)
    #[serde(default)]
    pub expiry: bool,
    /// the local record is padded to exactly 300 bytes and advertises UDP port 80 (one byte shorter in
    /// the record than the candidates' ports): the voted address does not fit into the record
    #[serde(default)]
    pub tight_record: bool,
    /// companion: the vote table on its own (hook VIpVote) with hundreds of voters; the service is not run
    #[serde(default)]
    pub table: Option<VoteTable>,
    /// the local record advertises no socket when the node starts (the first address is voted in)
    #[serde(default)]
    pub start_bare: bool,
}

/// Vote history for the vote table alone: blocks of voters naming a candidate, the majority is queried
/// after every block.
#[derive(Clone, Debug, PartialEq, Eq, Hash, Serialize, Deserialize)]
pub struct VoteTable {
    pub min: u8,
    /// (first voter, number of voters, candidate): voters first..first+n each vote for the candidate
    /// (odd candidates are IPv6 addresses)
    pub blocks: Vec<(u16, u16, u8)>,
}

fn run_vote_table(c: &VoteTable, rep: &mut CaseReport) {
    let m = c.min.clamp(2, 12) as usize;
    let mut t = discv5::verif::VIpVote::new(m, Duration::from_secs(3600));
    // ledger: latest vote per (voter, family)
    let mut votes: HashMap<(u16, bool), SocketAddr> = HashMap::new();
    let voter_id = |v: u16| {
        let mut raw = [0x5au8; 32];
        raw[0] = (v >> 8) as u8;
        raw[1] = v as u8;
        raw[31] = (v as u8).wrapping_mul(31);
        ids::node_id(&raw)
    };
    rep.class("vote-table-companion");
    let mut results = 0u64;
    let mut most = 0usize;
    for (first, n, cand) in c.blocks.iter().take(12) {
        let a = cand_addr(cand % 6, true);
        for v in *first..first.saturating_add(*n) {
            t.insert(voter_id(v), a);
            votes.insert((v, a.is_ipv6()), a);
        }
        let (m4, m6) = t.majority();
        for (fam6, got) in [(false, m4.map(SocketAddr::V4)), (true, m6.map(SocketAddr::V6))] {
            let mut per: HashMap<SocketAddr, usize> = HashMap::new();
            for ((_, f), a) in &votes {
                if *f == fam6 {
                    *per.entry(*a).or_insert(0) += 1;
                }
            }
            most = most.max(per.values().sum::<usize>());
            let Some(x) = got else { continue };
            results += 1;
            let cx = per.get(&x).copied().unwrap_or(0);
            if cx < m {
                rep.fail("address/majority-below-minimum", format!("the vote table names {x} as majority with {cx} current vote(s) from distinct peers, minimum {m} ({} voters in all, tallies {per:?})", per.values().sum::<usize>()));
                return;
            }
            for (y, cy) in &per {
                if *y == x {
                    continue;
                }
                if *cy >= cx {
                    rep.fail("address/majority-without-unique-maximum", format!("the vote table names {x} as majority with {cx} votes while rival {y} has {cy} unexpired votes (tallies {per:?})"));
                    return;
                }
                if 10 * cy >= 7 * cx {
                    rep.fail("address/majority-without-clear-margin", format!("the vote table names {x} as majority with {cx} votes while rival {y} has {cy} (within the 30% margin)"));
                    return;
                }
            }
        }
    }
    rep.nontrivial = results > 0 && most >= 30;
    if most > 256 {
        rep.class("vote-table-companion/>256-voters-in-one-family");
    }
    if most > 64 {
        rep.class("vote-table-companion/>64-voters-in-one-family");
    }
    rep.count("vote_table_majorities", results);
}

pub const SHORT_VOTE_MS: u64 = 80;

pub struct C17;

fn cand_addr(c: u8, dual: bool) -> SocketAddr {
    // in dual stack odd candidates are IPv6
    if dual && c % 2 == 1 {
        SocketAddr::new(IpAddr::V6(Ipv6Addr::new(0x2001, 0xdb8, 0, 9, 0, 0, 0, c as u16 + 1)), 30000 + c as u16)
    } else {
        SocketAddr::new(IpAddr::V4(Ipv4Addr::new(198, 51, 100, 10 + c)), 30000 + c as u16)
    }
}

async fn run(case: &Case, rep: &mut CaseReport) -> Option<(String, String)> {
    reset_globals();
    let m = case.min.clamp(2, 7) as usize;
    let nv = case.n_voters.clamp(2, 24) as usize;
    let nc = case.n_cands.clamp(2, 4);
    let mut s = Svc::new(SvcConfig {
        key_idx: 0,
        mode: if case.dual { Mode::Dual } else { Mode::Ip4 },
        enr_peer_update_min: Some(m),
        vote_duration: Some(if case.expiry { Duration::from_millis(SHORT_VOTE_MS) } else { Duration::from_secs(600) }),
        ping_interval: Some(Duration::from_secs(10)),
        local_record_size: if case.tight_record { Some(300) } else { None },
        local_port4: if case.tight_record { Some(80) } else { None },
        local_no_socket: case.start_bare && !case.tight_record,
        ..Default::default()
    })
    .await;
    if case.tight_record {
        rep.class(format!("local-record-of-{}-bytes", s.d.local_enr().size()));
    }
    if case.start_bare && !case.tight_record {
        rep.class("local-record-starts-without-a-socket");
    }
    let all_eligible = case.first_incoming as usize >= nv;
    // voters become table members
    let mut outstanding: HashMap<usize, (RequestId, NodeContact)> = HashMap::new();
    for v in 0..nv {
        let k = 600 + v as u32;
        let enr = shaped_record(k, 1, Shape::V4);
        let dir = if v >= case.first_incoming as usize { ConnectionDirection::Incoming } else { ConnectionDirection::Outgoing };
        s.inject(HandlerOut::Established(enr, svc_addr4(k), dir)).await;
    }
    let collect = |s: &mut Svc, outstanding: &mut HashMap<usize, (RequestId, NodeContact)>| {
        for msg in s.take_outbox() {
            if let HandlerIn::Request(c, r) = msg {
                if matches!(r.body, RequestBody::Ping { .. }) {
                    if let Some(v) = (0..nv).find(|v| keys::id_of(600 + *v as u32) == c.node_id().raw()) {
                        outstanding.insert(v, (r.id.clone(), c));
                    }
                }
            }
        }
    };
    collect(&mut s, &mut outstanding);
    s.take_events();
    // latest vote per voter and address family (the v4 and v6 sockets of the record are voted on separately)
    let mut votes: HashMap<(usize, bool), SocketAddr> = HashMap::new();
    let mut ever_named: HashMap<SocketAddr, std::collections::HashSet<usize>> = HashMap::new();
    let mut prev = s.d.local_enr();
    let mut updates = 0u64;
    // is the ledger exact? A PONG is certainly counted by the node only if its sender is a connected
    // outgoing table member at that moment; PONGs of other senders may be ignored while an earlier
    // vote of theirs stays in place, so after such a PONG only an upper bound of the counts is known.
    let mut exact = true;
    let mut failed: std::collections::HashSet<usize> = std::collections::HashSet::new();
    let mut named: HashMap<SocketAddr, std::collections::HashSet<usize>> = HashMap::new();
    let mut vote_changed = false;
    // expiry regime: for every (voter, address) the instant AFTER the service processed the latest
    // PONG of that voter naming that address; the vote it may have cast then is certainly expired once
    // more than the vote duration has passed since
    let mut named_at: HashMap<(usize, SocketAddr), std::time::Instant> = HashMap::new();
    let mut real_idles = 0;
    let mut naps = 0;
    let mut backlogs = 0;
    let mut updates_after_idle = 0u64;
    let mut manual_updates = 0u64;
    let mut moved: HashMap<usize, u64> = HashMap::new();
    // per family: the socket the application set last, while no vote-driven update has replaced it
    let mut set_by_app: HashMap<bool, SocketAddr> = HashMap::new();
    for step in &case.steps {
        let mut input_is_pong = false;
        let mut manual = false;
        let t_before = std::time::Instant::now();
        match step {
            Step::Pong { voter, cand } => {
                let v = *voter as usize % nv;
                let Some((id, contact)) = outstanding.remove(&v) else { continue };
                let a = cand_addr(*cand % nc, case.dual);
                if let Some(old) = votes.insert((v, a.is_ipv6()), a) {
                    if old != a {
                        vote_changed = true;
                    }
                }
                ever_named.entry(a).or_default().insert(v);
                named.entry(a).or_default().insert(v);
                if v >= case.first_incoming as usize || failed.contains(&v) {
                    exact = false;
                }
                input_is_pong = true;
                let port = std::num::NonZeroU16::new(a.port()).unwrap();
                s.inject(HandlerOut::Response(
                    NodeAddress::new(contact.socket_addr(), contact.node_id()),
                    Box::new(Response { id, body: ResponseBody::Pong { enr_seq: 1, ip: a.ip(), port } }),
                ))
                .await;
                named_at.insert((v, a), std::time::Instant::now());
            }
            Step::ManualUpdate { cand } => {
                if case.expiry || case.tight_record {
                    continue;
                }
                let a = cand_addr(*cand % nc, case.dual);
                manual = true;
                if s.d.update_local_enr_socket(a, false) {
                    manual_updates += 1;
                    set_by_app.insert(a.is_ipv6(), a);
                    rep.class("record-socket-set-by-the-application-in-between");
                }
                s.settle().await;
            }
            Step::Move { voter } => {
                let v = *voter as usize % nv;
                if case.expiry || v >= case.first_incoming as usize {
                    continue;
                }
                let k = 600 + v as u32;
                let n = moved.entry(v).or_insert(1u64);
                *n += 1;
                let sock = SocketAddr::new(IpAddr::V4(Ipv4Addr::new(10, 44, v as u8, *n as u8)), 7000 + *n as u16);
                let rec = crate::engines::wire::node_record(&keys::key(k), Some(sock), None, *n);
                outstanding.remove(&v);
                s.inject(HandlerOut::Established(rec, sock, ConnectionDirection::Outgoing)).await;
                rep.class("voter-moved-to-another-socket");
            }
            Step::EventBacklog => {
                if backlogs >= 1 {
                    continue;
                }
                backlogs += 1;
                s.drain_events = false;
                for j in 0..70u32 {
                    let k = 900 + j;
                    s.inject(HandlerOut::Established(shaped_record(k, 1, Shape::V4), svc_addr4(k), ConnectionDirection::Outgoing)).await;
                }
                s.drain_events = true;
                s.settle().await;
                let n = s.take_events().len();
                rep.count("events_read_after_the_backlog", n as u64);
                if std::env::var_os("VERIF_TRACE").is_some() {
                    eprintln!("[c17] backlog: {n} events were waiting in the stream");
                }
                rep.class("event-stream-ran-full-earlier");
            }
            Step::Nap => {
                if !case.expiry || naps >= 4 {
                    continue;
                }
                naps += 1;
                std::thread::sleep(Duration::from_millis(50));
            }
            Step::RealIdle => {
                if !case.expiry || real_idles >= 3 {
                    continue;
                }
                real_idles += 1;
                let t0 = std::time::Instant::now();
                while t0.elapsed() <= Duration::from_millis(SHORT_VOTE_MS * 13 / 10 + 5) {
                    std::thread::sleep(Duration::from_millis(5));
                }
                rep.class("expiry-regime/real-idle>1.3x-vote-duration");
            }
            Step::NextRound => {
                tokio::time::sleep(Duration::from_secs(10)).await;
                s.settle().await;
            }
            Step::Fail { voter } => {
                let v = *voter as usize % nv;
                let Some((id, _)) = outstanding.remove(&v) else { continue };
                failed.insert(v);
                s.inject(HandlerOut::RequestFailed(id, discv5::RequestError::Timeout)).await;
            }
        }
        collect(&mut s, &mut outstanding);
        let events = s.take_events();
        let now = s.d.local_enr();
        if std::env::var_os("VERIF_TRACE").is_some() {
            eprintln!("[c17] step {step:?}: events {:?}, udp4 {:?} seq {}", events.iter().map(|e| format!("{e:?}").chars().take(40).collect::<String>()).collect::<Vec<_>>(), now.udp4_socket(), now.seq());
        }
        if let Some(p) = crate::runner::take_panic() {
            return Some((format!("panic-in-task/{}", p.split(':').take(2).collect::<Vec<_>>().join(":")), p));
        }
        // any change of the record keeps it valid and increases seq
        if now != prev {
            if now.seq() <= prev.seq() {
                return Some(("record/seq-not-increased".into(), format!("local record changed, seq {} -> {}", prev.seq(), now.seq())));
            }
            if !now.verify() {
                return Some(("record/signature-invalid".into(), "local record changed and its signature no longer verifies".into()));
            }
        }
        for (new_sock, old_sock, fam) in [
            (now.udp4_socket().map(SocketAddr::V4), prev.udp4_socket().map(SocketAddr::V4), "v4"),
            (now.udp6_socket().map(SocketAddr::V6), prev.udp6_socket().map(SocketAddr::V6), "v6"),
        ] {
            if new_sock == old_sock || manual {
                continue;
            }
            if manual_updates > 0 {
                rep.class("address-updated-by-votes-after-the-application-had-set-it");
            }
            set_by_app.remove(&(fam == "v6"));
            let Some(x) = new_sock else {
                return Some(("address/removed-by-pong-path".into(), format!("the {fam} socket disappeared from the local record after {step:?}")));
            };
            updates += 1;
            if !input_is_pong {
                return Some(("address/changed-without-pong".into(), format!("local {fam} socket became {x} after {step:?}")));
            }
            let count = |a: &SocketAddr| votes.values().filter(|v| *v == a).count();
            // exact ledger: current votes; otherwise the sound upper bound: distinct voters that ever named x
            let cx = if exact { count(&x) } else { named.get(&x).map(|s| s.len()).unwrap_or(0) };
            if case.expiry {
                // sound upper bound: voters that named x and whose naming is not certainly expired at
                // the moment the triggering PONG was handed to the service
                let dur = Duration::from_millis(SHORT_VOTE_MS);
                let alive = named_at.iter().filter(|((_, a), t)| *a == x && **t + dur >= t_before).count();
                if real_idles > 0 {
                    updates_after_idle += 1;
                }
                if alive < m {
                    return Some((
                        "address/updated-counting-expired-votes".into(),
                        format!("local {fam} socket became {x}: only {alive} peer(s) named it within the last {SHORT_VOTE_MS} ms (vote duration), minimum {m}; votes older than that had certainly expired (all namings {cx})"),
                    ));
                }
            }
            if cx < m {
                return Some((
                    "address/updated-below-minimum".into(),
                    format!("local {fam} socket became {x} with {cx} current vote(s) from distinct peers, minimum {m} (votes {votes:?})"),
                ));
            }
            if all_eligible && exact && !case.expiry {
                for y in votes.values().filter(|y| **y != x && y.is_ipv4() == x.is_ipv4()) {
                    let cy = count(y);
                    if cy >= cx {
                        return Some(("address/updated-without-unique-maximum".into(), format!("{x} has {cx} votes, rival {y} has {cy}")));
                    }
                    // a 30% lead means the rival has fewer than 70% of the winner's votes; exact integer
                    // arithmetic, independent of how the implementation rounds its threshold (an
                    // implementation that rounds may refuse MORE, never less)
                    if 10 * cy >= 7 * cx {
                        return Some(("address/updated-without-clear-majority".into(), format!("{x} has {cx} votes, rival {y} has {cy} (within the 30% margin)")));
                    }
                }
            }
            if !events.iter().any(|e| matches!(e, Event::SocketUpdated(a) if *a == x)) {
                return Some(("address/update-not-announced".into(), format!("local {fam} socket became {x} without a SocketUpdated event")));
            }
        }
        prev = now;
    }
    // fewer liars than the minimum never move the record
    for (a, who) in &ever_named {
        if who.len() < m {
            let cur = s.d.local_enr();
            if set_by_app.get(&a.is_ipv6()) == Some(a) {
                continue;
            }
            if cur.udp4_socket().map(SocketAddr::V4) == Some(*a) || cur.udp6_socket().map(SocketAddr::V6) == Some(*a) {
                return Some(("address/moved-by-fewer-than-minimum".into(), format!("{a} was only ever named by {} peers, minimum {m}", who.len())));
            }
        }
    }
    s.d.shutdown();
    let mut per: HashMap<SocketAddr, usize> = HashMap::new();
    for v in votes.values() {
        *per.entry(*v).or_insert(0) += 1;
    }
    let two_with_two = per.values().filter(|c| **c >= 2).count() >= 2;
    rep.nontrivial = two_with_two || vote_changed || updates > 0;
    if updates > 0 {
        rep.class("address-updated");
    }
    if two_with_two {
        rep.class("two-candidates-with>=2-votes");
    }
    if vote_changed {
        rep.class("voter-changed-its-vote");
    }
    rep.class(if all_eligible { "all-voters-eligible" } else { "some-incoming-voters" });
    rep.class(if exact { "ledger-exact-until-the-end" } else { "ledger-upper-bound-only(after a possibly ignored PONG)" });
    rep.count("updates", updates);
    if case.expiry {
        rep.class("expiry-regime");
        rep.count("expiry_regime_updates_after_a_real_idle", updates_after_idle);
    }
    None
}

fn estep_tail() -> BoxedStrategy<Step> {
    prop_oneof![
        10 => (0u8..8, prop_oneof![5 => Just(0u8), 2 => Just(1u8)]).prop_map(|(voter, cand)| Step::Pong { voter, cand }),
        2 => Just(Step::NextRound),
        2 => Just(Step::RealIdle),
        2 => Just(Step::Nap),
    ]
    .boxed()
}

impl Property for C17 {
    type Case = Case;
    const ID: &'static str = "C17";
    fn cases(tier: Tier) -> u64 {
        tier.pick(24_000, 600_000)
    }
    fn strategy(_tier: Tier) -> BoxedStrategy<Case> {
        let step = prop_oneof![
            12 => (0u8..24, prop_oneof![4 => Just(0u8), 3 => Just(1u8), 1 => 0u8..4]).prop_map(|(voter, cand)| Step::Pong { voter, cand }),
            2 => Just(Step::NextRound),
            1 => (0u8..24).prop_map(|voter| Step::Fail { voter }),
            1 => Just(Step::EventBacklog),
            1 => (0u8..4).prop_map(|cand| Step::ManualUpdate { cand }),
            2 => (0u8..24).prop_map(|voter| Step::Move { voter }),
        ];
        let free = (any::<bool>(), 2u8..=7, prop_oneof![2 => 3u8..=14, 1 => 12u8..=24], prop_oneof![3 => Just(99u8), 1 => 0u8..14], 2u8..=4, proptest::collection::vec(step, 1..70), prop_oneof![12 => Just(false), 1 => Just(true)], prop_oneof![4 => Just(false), 1 => Just(true)])
            .prop_map(|(dual, min, n_voters, first_incoming, n_cands, steps, tight_record, start_bare)| Case { dual, min, n_voters, first_incoming, n_cands, steps, expiry: false, tight_record, table: None, start_bare });
        // expiry regime: some voters name an address, real time passes until those votes have
        // expired, then further voters name it (and the early ones may vote again in a new ping round)
        let estep = prop_oneof![
            10 => (0u8..8, prop_oneof![5 => Just(0u8), 2 => Just(1u8)]).prop_map(|(voter, cand)| Step::Pong { voter, cand }),
            2 => Just(Step::NextRound),
            2 => Just(Step::RealIdle),
        ];
        let expiry = (any::<bool>(), 2u8..=4, 0u8..=3, proptest::collection::vec(estep, 0..12)).prop_map(|(dual, min, before, tail)| {
            let before = before.min(min - 1).max(1);
            let mut steps: Vec<Step> = (0..before).map(|v| Step::Pong { voter: v, cand: 0 }).collect();
            steps.push(Step::RealIdle);
            for v in before..min {
                steps.push(Step::Pong { voter: v, cand: 0 });
            }
            steps.extend(tail);
            Case { dual, min, n_voters: 8, first_incoming: 99, n_cands: 2, steps, expiry: true, tight_record: false, table: None, start_bare: false }
        });
        // dual stack: the peers that named an IPv6 address let that vote expire and vote on the IPv4
        // address in a later round; then one further peer names the IPv6 address
        let expiry_dual = (2u8..=4, proptest::collection::vec(estep_tail(), 0..6)).prop_map(|(min, tail)| {
            // (the IPv6 votes are 50 ms old when their owners vote again, 100 ms - more than the 80 ms
            // vote duration - when the last peer votes)
            let mut steps: Vec<Step> = (0..min - 1).map(|v| Step::Pong { voter: v, cand: 1 }).collect();
            steps.push(Step::Nap);
            steps.push(Step::NextRound);
            for v in 0..min - 1 {
                steps.push(Step::Pong { voter: v, cand: 0 });
            }
            steps.push(Step::Nap);
            steps.push(Step::Pong { voter: min - 1, cand: 1 });
            steps.extend(tail);
            Case { dual: true, min, n_voters: 8, first_incoming: 99, n_cands: 2, steps, expiry: true, tight_record: false, table: None, start_bare: false }
        });
        let block = (prop_oneof![3 => Just(0u16), 2 => 0u16..700], prop_oneof![3 => 1u16..40, 3 => 40u16..300, 2 => 200u16..700], prop_oneof![4 => Just(0u8), 4 => Just(2u8), 1 => 0u8..6]);
        let table = (2u8..=12, proptest::collection::vec(block, 1..8)).prop_map(|(min, mut blocks)| {
            // later blocks of voters that did not vote before (the ledger then differs from "the latest N votes")
            let mut next = 0u16;
            for (j, b) in blocks.iter_mut().enumerate() {
                if j % 2 == 0 {
                    b.0 = next;
                }
                next = next.max(b.0.saturating_add(b.1));
            }
            Case { dual: true, min, n_voters: 2, first_incoming: 99, n_cands: 2, steps: vec![], expiry: false, tight_record: false, table: Some(VoteTable { min, blocks }), start_bare: false }
        });
        prop_oneof![80 => free, 2 => expiry, 1 => expiry_dual, 6 => table].boxed()
    }
    fn run(case: &Case) -> CaseReport {
        let mut rep = CaseReport::default();
        if let Some(t) = &case.table {
            run_vote_table(t, &mut rep);
            return rep;
        }
        let v = run_blocking(run(case, &mut rep));
        if let Some((s, d)) = v {
            rep.fail(s, d);
        }
        rep
    }
    fn rule() -> String {
        "a real service with a scripted handler (IPv4 or dual stack, enr_peer_update_min 2..6, vote duration 10 min, ping interval 10 s virtual, connectivity timer off; in a fifth of the cases the local record starts without any socket, so that the first address of each family is voted in); 3..24 voters become table members through Established (outgoing; in a quarter of the cases some are incoming); the service's own PINGs are answered per script with PONGs naming one of 2..4 candidate addresses (IPv6 candidates in dual stack), voters change their vote in later ping rounds, voters move (a new session with a newer record at another socket, later PONGs come from there; still one peer, one vote), some PINGs fail or stay unanswered; now and then the application sets the record's socket itself (update_local_enr_socket) to one of the candidates, after which the votes may move it back. Ledger: latest vote per voter. Whenever the UDP socket of local_enr() changes between two steps: the step's input was a PONG; the new address has >= minimum current votes from distinct voters; (all voters eligible) it is the unique maximum and every rival has fewer than 70% of its votes; seq increased, the signature verifies, and Event::SocketUpdated(address) was emitted in that step; an address named by fewer than the minimum number of peers is never taken. Expiry regime (one case in 41): vote duration 80 ms of real time, some voters name an address, a measured real idle period of more than 1.3 x the vote duration follows, then further voters name it; an update then needs at least the minimum number of peers whose naming is not certainly expired. One case in 15 is a companion on the vote table alone (hook VIpVote around service::ip_vote::IpVote, vote duration 1 h): up to 8 blocks of 1..700 voters (voter ids 0..1400, fresh voters and voters changing their vote) name one of 6 addresses of both families, minimum 2..12; after every block the majority of each family is read and, if there is one, must have >= minimum current votes, be the unique maximum and lead every rival by the exact 70% rule - with hundreds of voters, which no routing table holds. Non-trivial = two candidates with >= 2 votes each, a voter changing its vote, or an update; companion: a majority was named among >= 30 voters.".into()
    }
    fn assumptions() -> Vec<String> {
        vec![
            "ordinary cases: votes never expire (10 min real-time vote duration). One case in 41 runs in the expiry regime: 80 ms vote duration, real idle periods of > 1.3 x that (IpVote reads std::time::Instant); there the margin clause is not evaluated (a rival's votes may have expired) and only the one-directional claim is made that an update needs >= minimum peers whose naming of the address is not CERTAINLY expired (sound under any machine load)".into(),
            "with incoming voters in the script (eligible only in dual stack while votes are missing) the majority-margin clause is not asserted, only minimum, seq, signature and event".into(),
            "the margin check is exact integer arithmetic (a rival with >= 70% of the winner's votes is within the margin); an implementation that rounds its threshold may refuse more updates than that, never fewer".into(),
        ]
    }
}
