//! C15 - Sessions expire and the session cache is bounded.
//! Session age is measured with std::time::Instant inside the crate, so this is the one wire
//! property with real sleeps. Claims are one-directional: only "not used after a MEASURED idle
//! longer than the timeout (+30%)", never "still alive before".

use crate::{
    engines::{wire::*, wire_interp::act},
    props::c04::decrypt,
    runner::{CaseReport, Property, Tier},
};
use discv5::{
    packet::PacketKind,
    verif::{HandlerOut, Message},
};
use proptest::prelude::*;
use serde::{Deserialize, Serialize};
use std::{
    collections::HashMap,
    time::{Duration, Instant},
};

pub const SHORT_TIMEOUT_MS: u64 = 120;

#[derive(Clone, Copy, Debug, PartialEq, Eq, Hash, Serialize, Deserialize)]
pub enum After {
    VSubmits,
    PeerSubmits,
    /// as above, and once the new handshake is complete, datagrams of the peer from before the idle
    /// period are presented again (this costs V its new session: an undecryptable message drops it)
    VSubmitsThenStale,
    PeerSubmitsThenStale,
    /// V submits, the exchange runs until V has sent its handshake packet (V holds the new session
    /// from then on) and that packet and everything after it is lost
    VSubmitsHandshakeLost,
    /// before the idle period the peer sends a request that V's application holds; after the idle
    /// period the application answers it (a late answer over a session that has timed out)
    VAnswersLate,
    /// while the session idles, undecryptable packets in the peer's name keep arriving from its address
    /// at intervals shorter than the timeout; more than 1.3 x timeout after the last genuine use V submits
    VSubmitsAfterKnocks,
    /// before the idle period V sends the peer a request that is lost; half a timeout later V's
    /// request timer fires and V retransmits it (needs request_retries >= 2) - re-sending old
    /// ciphertext is no use of the session - and then the peer sends V a request under its session
    PeerSubmitsAfterRetransmission,
    /// like VSubmitsAfterKnocks, but what keeps arriving is a copy of the handshake packet the peer
    /// once sent (no challenge is outstanding: the packet is ignored - it is no use of the session)
    VSubmitsAfterHandshakeKnocks,
}

#[derive(Clone, Copy, Debug, PartialEq, Eq, Hash, Serialize, Deserialize)]
pub enum COp {
    /// V sends a request to peer p, everything is delivered
    ExchangeOut(u8),
    /// peer p sends a request to V, everything is delivered
    ExchangeIn(u8),
    /// real sleep until the session with p has been idle (measured) for > 1.3 x timeout, then act
    IdleLong(u8, After),
    /// a short real sleep (10..100 ms, i.e. less than the 120 ms timeout): some sessions age while
    /// others are refreshed in between
    Nap(u8),
    /// V sends peer p a request and everything V emits for it is lost (no handshake can follow)
    SubmitLost(u8),
}

#[derive(Clone, Debug, PartialEq, Eq, Hash, Serialize, Deserialize)]
pub struct Case {
    pub n_peers: u8,
    pub capacity: u8,
    pub short_timeout: bool,
    pub ops: Vec<COp>,
    /// bit i-1: peer i sends from another socket than its record advertises (NAT). Such peers only ever
    /// contact V (V's own handshakes to them fail the record check by design)
    #[serde(default)]
    pub nat: u8,
    /// request_retries of the handlers (0 = the usual 1)
    #[serde(default)]
    pub retries: u8,
}

pub struct C15;

async fn deliver_all(w: &mut World, rep: &mut CaseReport, cap: usize) -> Option<(String, String)> {
    let mut guard = 0;
    while !w.pool.is_empty() && guard < 80 {
        guard += 1;
        let idx = w.pool.remove(0);
        w.deliver_logged(idx);
        w.settle().await;
        w.step += 1;
        if let Some(v) = check_capacity(w, cap) {
            return Some(v);
        }
    }
    let _ = rep;
    None
}

/// Did V, since event index `from`, deliver a message of peer p or report a session with it? Then
/// the cache entry of that session was written or refreshed in the meantime.
fn touched_since(w: &World, from: usize, p: usize) -> bool {
    let addr = w.nodes[p].addr;
    w.events[from..].iter().any(|e| {
        e.node == 0
            && match &e.out {
                HandlerOut::Request(a, _) | HandlerOut::Response(a, _) => a.socket_addr == addr,
                HandlerOut::Established(_, s, _) => *s == addr,
                _ => false,
            }
    })
}

fn check_capacity(w: &World, cap: usize) -> Option<(String, String)> {
    let n = w.snaps[0].sessions.len();
    if n > cap {
        return Some(("sessions/capacity-exceeded".into(), format!("V holds {n} sessions, capacity {cap}")));
    }
    None
}

async fn run(case: &Case, rep: &mut CaseReport) -> Option<(String, String)> {
    let n_peers = case.n_peers.clamp(1, 6);
    let cap = case.capacity.clamp(1, 5) as usize;
    let cfg = WireConfig {
        n_peers,
        retries: if case.retries == 0 { 1 } else { case.retries.min(3) },
        filter: false,
        wru_mode: vec![AppMode::Immediate; 8],
        wru_know: vec![Know::Current; 8],
        resp_mode: vec![AppMode::Immediate; 8],
        nodes_packets: 1,
        seqs: vec![1; 8],
        foreign_enr_answer: vec![],
        nat_peers: (1..=6u8).filter(|i| case.nat & (1 << (i - 1)) != 0).collect(),
        nat_kind: 0,
        dual_records: false,
        v_session_timeout_ms: if case.short_timeout { Some(SHORT_TIMEOUT_MS) } else { None },
        v_session_capacity: Some(cap as u8),
        v_dual_listen: false,
    };
    let mut w = World::new(cfg).await;
    // ledger: last use per peer (op index) and wall-clock instant after the op that touched it
    let mut last_use: HashMap<usize, usize> = HashMap::new();
    let mut last_touch: HashMap<usize, Instant> = HashMap::new();
    // wall-clock instant BEFORE the last op that touched the session with a peer: the cache's time
    // stamp of that session is not older than this
    let mut touch_start: HashMap<usize, Instant> = HashMap::new();
    // peers with an exchange cut short: virtual time of the cut. Once timers may have fired since
    // (retransmission, request timeout -> session failure) such a peer's session is no longer judged.
    let mut cut_at: HashMap<usize, u64> = HashMap::new();
    let mut limbo: std::collections::HashSet<usize> = std::collections::HashSet::new();
    // sessions the harness has MEASURED to be idle for more than 1.3 x timeout (instant of their last
    // genuine use), until something touches them again
    let mut expired_since: HashMap<usize, Instant> = HashMap::new();
    let mut long_idles = 0;
    let mut naps = 0;
    for (opi, op) in case.ops.iter().enumerate() {
        let before: Vec<usize> = w.snaps[0].sessions.iter().filter_map(|s| w.node_by_addr(&s.addr.socket_addr)).collect();
        for (q, t) in &cut_at {
            if w.now_ms().saturating_sub(*t) >= REQUEST_TIMEOUT_MS / 2 {
                limbo.insert(*q);
            }
        }
        match *op {
            COp::ExchangeOut(p) | COp::ExchangeIn(p) => {
                let p = 1 + (p as usize % n_peers as usize);
                let is_nat = case.nat & (1 << (p - 1)) != 0;
                if is_nat {
                    rep.class("exchange-with-a-peer-behind-nat(record advertises another socket)");
                }
                let (from, to) = if matches!(op, COp::ExchangeOut(_)) && !is_nat { (0u8, p as u8) } else { (p as u8, 0u8) };
                let op_start = Instant::now();
                let ev_start = w.events.len();
                if cut_at.contains_key(&p) {
                    limbo.insert(p);
                }
                act(&mut w, &Op::Submit { from, to, body: Body::Ping, with_record: true });
                w.settle().await;
                w.step += 1;
                if let Some(v) = deliver_all(&mut w, rep, cap).await {
                    return Some(v);
                }
                // X3: LRU eviction
                let after: Vec<usize> = w.snaps[0].sessions.iter().filter_map(|s| w.node_by_addr(&s.addr.socket_addr)).collect();
                let gone: Vec<usize> = before.iter().copied().filter(|b| !after.contains(b)).collect();
                if !case.short_timeout && !after.contains(&p) {
                    return Some((
                        "sessions/most-recently-used-session-missing".into(),
                        format!("after a complete exchange with peer {p} V holds no session with it (sessions before {before:?}, after {after:?}, capacity {cap})"),
                    ));
                }
                if case.short_timeout {
                    // X3 in the expiry regime: sessions may vanish because they expired. One that is
                    // CERTAINLY not expired (less than the timeout of real time has passed since
                    // before the last op that touched it) can only have been dropped to make room,
                    // and then it must have been the least recently used one.
                    let timeout = Duration::from_millis(SHORT_TIMEOUT_MS);
                    for (q, t) in &cut_at {
                        if w.now_ms().saturating_sub(*t) >= REQUEST_TIMEOUT_MS / 2 {
                            limbo.insert(*q);
                        }
                    }
                    let fresh_gone: Vec<usize> =
                        gone.iter().copied().filter(|g| !limbo.contains(g) && touch_start.get(g).map(|t| t.elapsed() < timeout).unwrap_or(false)).collect();
                    if !fresh_gone.is_empty() {
                        rep.class("expiry-regime/unexpired-session-dropped-for-capacity");
                        rep.nontrivial = true;
                        for a in after.iter().filter(|a| **a != p) {
                            if let Some(t) = expired_since.get(a) {
                                if t.elapsed() > timeout * 13 / 10 {
                                    return Some((
                                        "sessions/expired-session-kept-while-a-live-one-was-dropped".into(),
                                        format!("cache full ({cap}); establishing a session with peer {p} dropped the session(s) of {fresh_gone:?} (certainly not expired) while the session of peer {a}, unused for {:?} (timeout {SHORT_TIMEOUT_MS} ms), is still held", t.elapsed()),
                                    ));
                                }
                            }
                        }
                        if before.contains(&p) || after.len() < cap || fresh_gone.len() > 1 {
                            return Some((
                                "sessions/session-lost-without-capacity-pressure".into(),
                                format!("sessions of peers {fresh_gone:?} (certainly not expired) disappeared during an exchange with peer {p} (before {before:?}, after {after:?}, capacity {cap})"),
                            ));
                        }
                        let g = fresh_gone[0];
                        let g_use = last_use.get(&g).copied().unwrap_or(0);
                        if let Some(older) = after.iter().copied().filter(|a| *a != p && !limbo.contains(a)).find(|a| last_use.get(a).copied().unwrap_or(0) < g_use) {
                            return Some((
                                "sessions/evicted-not-least-recently-used".into(),
                                format!("cache full ({cap}); establishing a session with peer {p} dropped the unexpired session of peer {g} (last used at op {g_use}) while the session of peer {older} (last used at op {}) was kept", last_use.get(&older).copied().unwrap_or(0)),
                            ));
                        }
                    }
                    // a complete exchange that took less than half the timeout leaves a session with p
                    if op_start.elapsed() < timeout / 2 && !after.contains(&p) && !cut_at.contains_key(&p) {
                        return Some((
                            "sessions/most-recently-used-session-missing".into(),
                            format!("after a complete exchange with peer {p} that took {:?} V holds no session with it (before {before:?}, after {after:?}, capacity {cap})", op_start.elapsed()),
                        ));
                    }
                }
                if !case.short_timeout && !gone.is_empty() {
                    if before.len() == cap && !before.contains(&p) && after.contains(&p) {
                        rep.class("session-established-at-full-capacity");
                        rep.nontrivial = true;
                        let oldest = before.iter().copied().min_by_key(|b| last_use.get(b).copied().unwrap_or(0)).unwrap();
                        let oldest_use = last_use.get(&oldest).copied().unwrap_or(0);
                        for g in &gone {
                            if last_use.get(g).copied().unwrap_or(0) != oldest_use {
                                return Some((
                                    "sessions/evicted-not-least-recently-used".into(),
                                    format!("cache full ({cap}); establishing a session with peer {p} dropped the session of peer {g} (last used at op {}), the least recently used one is peer {oldest} (op {oldest_use})", last_use.get(g).copied().unwrap_or(0)),
                                ));
                            }
                        }
                        if gone.len() > 1 {
                            return Some(("sessions/more-than-one-evicted".into(), format!("establishing one session dropped {} sessions: {gone:?}", gone.len())));
                        }
                    } else {
                        return Some((
                            "sessions/session-lost-without-capacity-pressure".into(),
                            format!("sessions of peers {gone:?} disappeared during an exchange with peer {p} (before {before:?}, capacity {cap}, timeout 1 day)"),
                        ));
                    }
                }
                last_touch.insert(p, Instant::now());
                if touched_since(&w, ev_start, p) {
                    expired_since.remove(&p);
                    last_use.insert(p, opi + 1);
                    touch_start.insert(p, op_start);
                } else {
                    limbo.insert(p);
                }
            }
            COp::SubmitLost(p) => {
                let p = 1 + (p as usize % n_peers as usize);
                if case.nat & (1 << (p - 1)) != 0 || cut_at.contains_key(&p) {
                    continue;
                }
                let held = w.snaps[0].sessions.iter().any(|s| s.addr.socket_addr == w.nodes[p].addr);
                if !case.short_timeout {
                    // 1-day regime: the request is encrypted under the session (a use of it), lost, and
                    // times out for good; the session stays (it is kept for future use)
                    if !held || case.retries > 1 {
                        continue;
                    }
                    act(&mut w, &Op::Submit { from: 0, to: p as u8, body: Body::Ping, with_record: true });
                    w.settle().await;
                    w.step += 1;
                    w.pool.clear();
                    crate::engines::wire_interp::advance(&mut w, Duration::from_millis(REQUEST_TIMEOUT_MS * 3 / 2)).await;
                    w.pool.clear();
                    last_use.insert(p, opi + 1);
                    last_touch.insert(p, Instant::now());
                    rep.class("request-under-a-live-session-lost-and-timed-out(1-day regime)");
                    if !w.snaps[0].sessions.iter().any(|s| s.addr.socket_addr == w.nodes[p].addr) {
                        return Some((
                            "sessions/session-lost-without-capacity-pressure".into(),
                            format!("V's request to peer {p} went unanswered and timed out; V's session with that peer is gone although nothing needed room (timeout 1 day)"),
                        ));
                    }
                    continue;
                }
                let idle = last_touch.get(&p).map(|t| t.elapsed());
                let ev0 = w.events.len();
                act(&mut w, &Op::Submit { from: 0, to: p as u8, body: Body::Ping, with_record: true });
                w.settle().await;
                w.step += 1;
                w.pool.clear();
                cut_at.insert(p, w.now_ms());
                match (held, idle, last_touch.get(&p).copied()) {
                    (true, Some(d), Some(t)) if d > Duration::from_millis(SHORT_TIMEOUT_MS * 13 / 10) && !touched_since(&w, ev0, p) => {
                        expired_since.insert(p, t);
                        rep.class("request-to-a-peer-with-an-expired-session-lost(no new handshake)");
                    }
                    _ => {
                        // the request was encrypted under the session (if it was alive): a use of it
                        last_touch.insert(p, Instant::now());
                        limbo.insert(p);
                    }
                }
            }
            COp::Nap(ms) => {
                if !case.short_timeout || naps >= 3 {
                    continue;
                }
                naps += 1;
                std::thread::sleep(Duration::from_millis(ms.clamp(10, 100) as u64));
                rep.class("short-nap(some sessions age, others are refreshed)");
            }
            COp::IdleLong(p, then) => {
                if !case.short_timeout || long_idles >= 2 {
                    continue;
                }
                let p = 1 + (p as usize % n_peers as usize);
                if cut_at.contains_key(&p) {
                    // an exchange with this peer was cut short: V may still hold a request for it whose
                    // retransmissions (old ciphertext, no use of the session) would be mistaken for uses
                    continue;
                }
                if case.nat & (1 << (p - 1)) != 0 && matches!(then, After::VSubmits | After::VSubmitsThenStale | After::VSubmitsHandshakeLost | After::VSubmitsAfterKnocks | After::VSubmitsAfterHandshakeKnocks) {
                    continue;
                }
                let mut held_for_later = Vec::new();
                if then == After::PeerSubmitsAfterRetransmission {
                    if case.retries < 2 || cut_at.contains_key(&p) || !w.snaps[0].sessions.iter().any(|s| s.addr.socket_addr == w.nodes[p].addr) {
                        continue;
                    }
                    // V's request goes out under the session and is lost
                    act(&mut w, &Op::Submit { from: 0, to: p as u8, body: Body::Ping, with_record: true });
                    w.settle().await;
                    w.step += 1;
                    w.pool.clear();
                    last_touch.insert(p, Instant::now());
                }
                if then == After::VAnswersLate {
                    // the peer's request is delivered to V's application, which does not answer yet
                    w.cfg.resp_mode[0] = AppMode::Manual;
                    act(&mut w, &Op::Submit { from: p as u8, to: 0, body: Body::Talk(opi as u8), with_record: true });
                    w.settle().await;
                    w.step += 1;
                    if let Some(v) = deliver_all(&mut w, rep, cap).await {
                        return Some(v);
                    }
                    w.cfg.resp_mode[0] = AppMode::Immediate;
                    held_for_later = std::mem::take(&mut w.nodes[0].held_req);
                    last_touch.insert(p, Instant::now());
                }
                // only meaningful if V holds a session with p
                let Some(sess) = w.snaps[0].sessions.iter().find(|s| s.addr.socket_addr == w.nodes[p].addr).cloned() else { continue };
                let Some(t0) = last_touch.get(&p).copied() else { continue };
                long_idles += 1;
                if cut_at.contains_key(&p) {
                    limbo.insert(p);
                }
                let need = Duration::from_millis(SHORT_TIMEOUT_MS * 13 / 10 + 5);
                let mut last_knock = Instant::now();
                let mut knocks = 0u32;
                let mut hs_knocks = 0u32;
                let mut retransmitted = false;
                while t0.elapsed() <= need {
                    std::thread::sleep(Duration::from_millis(5));
                    if then == After::PeerSubmitsAfterRetransmission && !retransmitted && t0.elapsed() >= Duration::from_millis(SHORT_TIMEOUT_MS / 2) {
                        // half a session timeout after the request went out V's request timer fires (virtual
                        // time): the stored packet is sent again (and lost again). The session was last USED
                        // when the request was encrypted
                        retransmitted = true;
                        let log0 = w.log.len();
                        crate::engines::wire_interp::advance(&mut w, Duration::from_millis(REQUEST_TIMEOUT_MS * 6 / 5)).await;
                        if w.log[log0..].iter().any(|d| d.from_node == Some(0) && d.to_addr == w.nodes[p].addr) {
                            rep.class("request-retransmitted-during-the-idle-period");
                        }
                        w.pool.clear();
                        cut_at.insert(p, w.now_ms());
                    }
                    if then == After::VSubmitsAfterHandshakeKnocks && last_knock.elapsed() >= Duration::from_millis(SHORT_TIMEOUT_MS / 3) {
                        last_knock = Instant::now();
                        let v_addr = w.nodes[0].addr;
                        let hs = w.log.iter().rev().find(|d| d.from_node == Some(p) && d.to_addr == v_addr && matches!(d.decoded.as_ref().map(|x| &x.0.kind), Some(PacketKind::Handshake { .. }))).map(|d| (d.idx, d.bytes.clone()));
                        if let Some((idx, bytes)) = hs {
                            hs_knocks += 1;
                            let from = w.nodes[p].addr;
                            w.inject(0, from, bytes, Some(idx), Some("replay".into()));
                            w.settle().await;
                            w.step += 1;
                            w.pool.clear();
                        }
                    }
                    if then == After::VSubmitsAfterKnocks && last_knock.elapsed() >= Duration::from_millis(SHORT_TIMEOUT_MS / 3) {
                        last_knock = Instant::now();
                        knocks += 1;
                        // an undecryptable message in p's name from p's address; what V answers (a WHOAREYOU) is lost
                        act(&mut w, &Op::GuessedKeyMessage { peer: (p - 1) as u8, to: 0, key: (knocks % 3) as u8, body: ForgedBody::Ping });
                        w.settle().await;
                        w.step += 1;
                        w.pool.clear();
                    }
                }
                if hs_knocks > 0 {
                    rep.class("copies-of-the-peer's-handshake-packet-during-the-idle-period");
                }
                if knocks > 0 {
                    rep.class("undecryptable-packets-from-the-peer's-address-during-the-idle-period");
                    // V's challenge(s) to p run out (virtual time) before V submits
                    crate::engines::wire_interp::advance(&mut w, Duration::from_millis(REQUEST_TIMEOUT_MS * 5 / 2)).await;
                    w.pool.clear();
                }
                rep.class("measured-idle>1.3x-timeout");
                rep.nontrivial = true;
                let old_keys: Vec<[u8; 16]> = {
                    let mut v = vec![sess.keys.0];
                    if let Some(o) = sess.old_keys {
                        v.push(o.0);
                    }
                    v
                };
                let log_before = w.log.len();
                let ev_before = w.events.len();
                let op_start = Instant::now();
                // keys under which V decrypted the peer's messages before the idle period
                let old_dec_keys: Vec<[u8; 16]> = {
                    let mut v = vec![sess.keys.1];
                    if let Some(o) = sess.old_keys {
                        v.push(o.1);
                    }
                    v
                };
                match then {
                    After::VSubmits | After::VSubmitsThenStale | After::VSubmitsHandshakeLost | After::VSubmitsAfterKnocks | After::VSubmitsAfterHandshakeKnocks => {
                        act(&mut w, &Op::Submit { from: 0, to: p as u8, body: Body::Ping, with_record: true });
                        w.settle().await;
                        w.step += 1;
                        // X1: the datagram V emits must not be encrypted under a key held before the idle period
                        for d in &w.log[log_before..] {
                            if d.from_node == Some(0) && d.to_addr == w.nodes[p].addr {
                                if let Some((Message::Request(r), _)) = decrypt(d, &old_keys) {
                                    return Some((
                                        "sessions/expired-session-used-to-encrypt".into(),
                                        format!("after a measured idle of {:?} (timeout {SHORT_TIMEOUT_MS} ms) V sent {r} to peer {p} encrypted under the old session key instead of starting a new handshake", t0.elapsed()),
                                    ));
                                }
                                if let Some((pk, _)) = &d.decoded {
                                    if matches!(pk.kind, PacketKind::Message { .. }) {
                                        rep.class("after-expiry-V-sends-random-packet");
                                    }
                                }
                            }
                        }
                        if then == After::VSubmitsHandshakeLost {
                            let mut guard = 0;
                            loop {
                                let hs = w.pool.iter().any(|i| w.log[*i].from_node == Some(0) && matches!(w.log[*i].decoded.as_ref().map(|d| &d.0.kind), Some(PacketKind::Handshake { .. })));
                                if hs || w.pool.is_empty() || guard > 20 {
                                    break;
                                }
                                guard += 1;
                                let idx = w.pool.remove(0);
                                w.deliver_logged(idx);
                                w.settle().await;
                                w.step += 1;
                            }
                            w.pool.clear();
                            cut_at.insert(p, w.now_ms());
                            // V is expected to hold a session with p under new keys now; if not, p's
                            // session is not judged any more
                            let rekeyed = w.snaps[0].sessions.iter().any(|s| s.addr.socket_addr == w.nodes[p].addr && s.keys.0 != sess.keys.0);
                            if rekeyed {
                                rep.class("handshake-sent-and-lost(V holds the new session, peer never answers)");
                            } else {
                                limbo.insert(p);
                            }
                        }
                    }
                    After::VAnswersLate => {
                        let n_held = held_for_later.len();
                        for (addr, req) in held_for_later.drain(..) {
                            w.respond(0, addr, req, 1);
                        }
                        w.settle().await;
                        w.step += 1;
                        for d in &w.log[log_before..] {
                            if d.from_node == Some(0) && d.to_addr == w.nodes[p].addr {
                                if let Some((Message::Response(r), _)) = decrypt(d, &old_keys) {
                                    return Some((
                                        "sessions/expired-session-used-to-encrypt".into(),
                                        format!("after a measured idle of {:?} (timeout {SHORT_TIMEOUT_MS} ms) V's application answered a request it had been holding, and V sent {r} to peer {p} encrypted under the timed-out session's key", t0.elapsed()),
                                    ));
                                }
                            }
                        }
                        if n_held > 0 {
                            rep.class("after-expiry-late-answer-not-sent-under-the-old-key");
                        }
                    }
                    After::PeerSubmits | After::PeerSubmitsThenStale | After::PeerSubmitsAfterRetransmission => {
                        act(&mut w, &Op::Submit { from: p as u8, to: 0, body: Body::Ping, with_record: true });
                        w.settle().await;
                        w.step += 1;
                        // deliver exactly the peer's first datagram (encrypted under the old session)
                        if let Some(pos) = w.pool.iter().position(|i| w.log[*i].from_node == Some(p) && *i >= log_before) {
                            let idx = w.pool.remove(pos);
                            let was_message_under_session = decrypt(&w.log[idx], &w.keys_seen[p]).is_some();
                            w.deliver_logged(idx);
                            w.settle().await;
                            w.step += 1;
                            if was_message_under_session {
                                for e in &w.events[ev_before..] {
                                    if e.node == 0 {
                                        if let HandlerOut::Request(a, r) = &e.out {
                                            if a.socket_addr == w.nodes[p].addr {
                                                return Some((
                                                    "sessions/expired-session-accepted-message".into(),
                                                    format!("after a measured idle of {:?} (timeout {SHORT_TIMEOUT_MS} ms) V accepted {r} from peer {p} under the expired session", t0.elapsed()),
                                                ));
                                            }
                                        }
                                    }
                                }
                                rep.class("after-expiry-old-session-message-not-delivered");
                            }
                        }
                    }
                }
                if let Some(v) = deliver_all(&mut w, rep, cap).await {
                    return Some(v);
                }
                // X1b: the new handshake is complete. A request of the peer that was encrypted under the
                // EXPIRED session (a datagram from before the idle period, presented again) must still
                // not be accepted: the timed-out keys are gone for good.
                let stale: Vec<usize> = (0..log_before)
                    .filter(|i| {
                        let d = &w.log[*i];
                        d.from_node == Some(p) && d.to_addr == w.nodes[0].addr && matches!(decrypt(d, &old_dec_keys), Some((Message::Request(_), _)))
                    })
                    .rev()
                    .take(if matches!(then, After::VSubmitsThenStale | After::PeerSubmitsThenStale) { 2 } else { 0 })
                    .collect();
                for idx in stale {
                    let ev0 = w.events.len();
                    w.deliver_logged(idx);
                    w.settle().await;
                    w.step += 1;
                    for e in &w.events[ev0..] {
                        if e.node == 0 {
                            if let HandlerOut::Request(a, r) = &e.out {
                                if a.socket_addr == w.nodes[p].addr {
                                    return Some((
                                        "sessions/expired-session-keys-accepted-after-rehandshake".into(),
                                        format!("the session with peer {p} timed out (measured idle {:?} > {SHORT_TIMEOUT_MS} ms) and a new handshake completed; V then accepted {r}, a datagram encrypted under the timed-out session's keys", t0.elapsed()),
                                    ));
                                }
                            }
                        }
                    }
                    rep.class("after-rehandshake-stale-key-message-not-delivered");
                    // whatever V answered (a WHOAREYOU) is delivered and ignored by the peer; V's
                    // challenge then runs out (virtual time) so that the next op starts from rest
                    if let Some(v) = deliver_all(&mut w, rep, cap).await {
                        return Some(v);
                    }
                    crate::engines::wire_interp::advance(&mut w, Duration::from_millis(REQUEST_TIMEOUT_MS * 5 / 2)).await;
                    if let Some(v) = deliver_all(&mut w, rep, cap).await {
                        return Some(v);
                    }
                }
                last_touch.insert(p, Instant::now());
                if touched_since(&w, ev_before, p) {
                    expired_since.remove(&p);
                    last_use.insert(p, opi + 1);
                    touch_start.insert(p, op_start);
                } else {
                    limbo.insert(p);
                }
            }
        }
        if std::env::var_os("VERIF_TRACE").is_some() {
            let sess: Vec<usize> = w.snaps[0].sessions.iter().filter_map(|s| w.node_by_addr(&s.addr.socket_addr)).collect();
            eprintln!("[c15] op {opi} {op:?}: log {} datagrams, events {}, V sessions with peers {sess:?}", w.log.len(), w.events.len());
        }
        if let Some(v) = check_capacity(&w, cap) {
            return Some(v);
        }
        if let Some(p) = crate::runner::take_panic() {
            return Some((format!("panic-in-task/{}", p.split(':').take(2).collect::<Vec<_>>().join(":")), p));
        }
    }
    None
}

impl Property for C15 {
    type Case = Case;
    const ID: &'static str = "C15";
    fn cases(tier: Tier) -> u64 {
        tier.pick(1_200, 12_000)
    }
    fn strategy(_tier: Tier) -> BoxedStrategy<Case> {
        let after = || prop_oneof![3 => Just(After::VSubmits), 3 => Just(After::PeerSubmits), 2 => Just(After::VSubmitsThenStale), 2 => Just(After::PeerSubmitsThenStale), 2 => Just(After::VSubmitsHandshakeLost), 2 => Just(After::VAnswersLate), 2 => Just(After::VSubmitsAfterKnocks), 2 => Just(After::PeerSubmitsAfterRetransmission), 2 => Just(After::VSubmitsAfterHandshakeKnocks)];
        let op = || {
            prop_oneof![
                5 => (0u8..6).prop_map(COp::ExchangeOut),
                3 => (0u8..6).prop_map(COp::ExchangeIn),
                3 => (0u8..6, after()).prop_map(|(p, a)| COp::IdleLong(p, a)),
                1 => (30u8..100).prop_map(COp::Nap),
                2 => (0u8..6).prop_map(COp::SubmitLost),
            ]
        };
        let nat = || prop_oneof![3 => Just(0u8), 1 => any::<u8>()];
        let free = (2u8..=6, 1u8..=5, any::<bool>(), proptest::collection::vec(op(), 2..16), nat())
            .prop_map(|(n_peers, capacity, short_timeout, ops, nat)| {
                // request_retries 3 wherever a retransmission is part of the script
                let retries = if ops.iter().any(|o| matches!(o, COp::IdleLong(_, After::PeerSubmitsAfterRetransmission))) { 3 } else { 0 };
                Case { n_peers, capacity, short_timeout, ops, nat, retries }
            });
        // the cache is filled to its capacity, one of its sessions times out and is re-established,
        // then peers that have no session yet arrive: who is dropped to make room?
        let pressure = (1u8..=4, proptest::collection::vec(any::<bool>(), 8), 0u8..4, prop_oneof![1 => Just(After::VSubmits), 1 => Just(After::PeerSubmits), 2 => Just(After::VSubmitsHandshakeLost)], 1u8..=2, proptest::collection::vec(op(), 0..5), nat())
            .prop_map(|(cap, dirs, which, then, newcomers, tail, nat)| {
                let n_peers = (cap + newcomers).min(6);
                let ex = |i: u8, out: bool| if out { COp::ExchangeOut(i) } else { COp::ExchangeIn(i) };
                // op argument a addresses peer 1 + a % n_peers
                let mut ops: Vec<COp> = (0..cap).map(|i| ex(i, dirs[i as usize])).collect();
                ops.push(COp::IdleLong(which % cap, then));
                for j in 0..newcomers {
                    ops.push(ex(cap + j, dirs[(4 + j) as usize]));
                }
                ops.extend(tail);
                Case { n_peers, capacity: cap, short_timeout: true, ops, nat, retries: 0 }
            });
        // expiry and capacity together: the cache is filled, the oldest session ages beyond the time-out
        // while the others are refreshed in between, then newcomers arrive (the purge removes the
        // expired session, the next newcomer needs room)
        let aging = (2u8..=4, proptest::collection::vec(any::<bool>(), 12), 60u8..85, 1u8..=2, proptest::collection::vec(op(), 0..4), nat()).prop_map(|(cap, dirs, nap, newcomers, tail, nat)| {
            let n_peers = (cap + 2).min(6);
            let ex = |i: u8, out: bool| if out { COp::ExchangeOut(i) } else { COp::ExchangeIn(i) };
            let mut ops: Vec<COp> = (0..cap).map(|i| ex(i, dirs[i as usize])).collect();
            ops.push(COp::Nap(nap));
            for i in 1..cap {
                ops.push(ex(i, dirs[(4 + i) as usize]));
            }
            ops.push(COp::Nap(nap));
            for j in 0..=newcomers {
                ops.push(ex(cap + j, dirs[(8 + j) as usize]));
            }
            ops.extend(tail);
            Case { n_peers, capacity: cap, short_timeout: true, ops, nat, retries: 0 }
        });
        // the oldest session ages beyond the time-out while the others are refreshed twice; V then sends
        // its peer a request that is lost (no new handshake), and newcomers arrive at full capacity
        let aging_lost = (2u8..=4, proptest::collection::vec(any::<bool>(), 16), 88u8..100, 1u8..=2, proptest::collection::vec(op(), 0..3)).prop_map(|(cap, dirs, nap, newcomers, tail)| {
            let n_peers = (cap + 2).min(6);
            let ex = |i: u8, out: bool| if out { COp::ExchangeOut(i) } else { COp::ExchangeIn(i) };
            let mut ops: Vec<COp> = (0..cap).map(|i| ex(i, dirs[i as usize])).collect();
            for round in 0..2u8 {
                ops.push(COp::Nap(nap));
                for i in 1..cap {
                    ops.push(ex(i, dirs[(4 + 4 * round + i) as usize]));
                }
            }
            ops.push(COp::SubmitLost(0));
            for j in 0..newcomers {
                ops.push(ex(cap + j, dirs[(12 + j) as usize]));
            }
            ops.extend(tail);
            Case { n_peers, capacity: cap, short_timeout: true, ops, nat: 0, retries: 0 }
        });
        prop_oneof![6 => free, 2 => pressure, 1 => aging, 1 => aging_lost].boxed()
    }
    fn run(case: &Case) -> CaseReport {
        let mut rep = CaseReport::default();
        let rt = tokio::runtime::Builder::new_current_thread().enable_all().start_paused(true).build().expect("runtime");
        let v = rt.block_on(run(case, &mut rep));
        drop(rt);
        if let Some((s, d)) = v {
            rep.fail(s, d);
        }
        rep.class(if case.short_timeout { "timeout-120ms" } else { "timeout-1day" });
        rep
    }
    fn rule() -> String {
        "V (real handler, virtual wire) with session_cache_capacity 1..5 and session_timeout in {120 ms real, 1 day}, 2..6 honest peers; ops: complete exchanges in either direction (establish / refresh sessions) and, in the 120 ms regime, at most two real idle periods per case that last until the harness has MEASURED more than 1.3 x timeout since the end of the last op that touched that session, followed by V submitting a request to the idle peer, the idle peer sending V a request under its (unexpired) session, or V's application answering a request of that peer it has been holding since before the idle period, or the peer sending a request after V retransmitted (request_retries 3) a request of its own that was lost before the idle period, or V submitting after undecryptable packets in the peer's name (or copies of the handshake packet the peer once sent) kept arriving from its address every 40 ms during the idle period. In a quarter of the cases some peers are behind NAT (their record advertises another socket; they only ever contact V). X1: the datagram V then emits does not decrypt under any key V held before the idle period, and a message under the old session is not delivered before a new handshake; X2: V's probe snapshot never lists more sessions than the capacity; X3 (1-day regime): a session disappears only when a new one is established at full capacity, exactly one, and it belongs to the peer least recently used according to the harness ledger. Short naps (10..100 ms) let some sessions age while others are refreshed; by-construction scenarios: capacity pressure after a re-established session, the oldest session aging out while the others are refreshed twice and V then sending its peer a request that is lost (the expired entry must not outlive a live one when newcomers need room), and the oldest session aging out while the others are refreshed before newcomers arrive. Non-trivial = a measured long idle followed by traffic, or a session established at full capacity.".into()
    }
    fn assumptions() -> Vec<String> {
        vec![
            "one-directional: nothing is asserted about sessions that have NOT been idle longer than the timeout (no flakiness under machine load)".into(),
            "real sleeps (std::time::Instant is read by the session cache); <= 2 per case".into(),
        ]
    }
}
