//! Generic runner: drives one property with proptest, shards over processes, merges shard
//! results, writes evidence, handles known findings, prints VIOLATION / KNOWN-FINDING lines.

use crate::findings::{Findings, Status};
use proptest::{
    strategy::{BoxedStrategy, Strategy, ValueTree},
    test_runner::{Config, RngAlgorithm, RngSeed, TestCaseError, TestError, TestRng, TestRunner},
};
use serde::{de::DeserializeOwned, Deserialize, Serialize};
use serde_json::{json, Value};
use std::{
    cell::RefCell,
    collections::{BTreeMap, HashSet},
    fmt::Debug,
    hash::{Hash, Hasher},
    io::Write,
    panic::{catch_unwind, AssertUnwindSafe},
    path::{Path, PathBuf},
    process::{Command, Stdio},
    time::{Duration, Instant},
};

pub const DEFAULT_SEED: u64 = 20260925;
pub const VERIF_DIR: &str = "/verif";
/// Root of the verification tree: /verif, or the value of VERIF_ROOT (used only for development in a scratch copy).
pub fn verif_dir() -> PathBuf {
    std::env::var_os("VERIF_ROOT").map(PathBuf::from).unwrap_or_else(|| PathBuf::from(VERIF_DIR))
}

#[derive(Clone, Copy, Debug, PartialEq, Eq, Serialize, Deserialize)]
pub enum Tier {
    Quick,
    Thorough,
}

impl Tier {
    pub fn name(self) -> &'static str {
        match self {
            Tier::Quick => "quick",
            Tier::Thorough => "thorough",
        }
    }
    /// Convenience: pick a number by tier.
    pub fn pick<T>(self, quick: T, thorough: T) -> T {
        match self {
            Tier::Quick => quick,
            Tier::Thorough => thorough,
        }
    }
}

#[derive(Clone, Debug, Serialize, Deserialize)]
pub struct Violation {
    /// Stable, coarse classification of what failed (matched against known_findings.json).
    pub signature: String,
    /// Human readable detail.
    pub detail: String,
}

/// What running one case produced.
#[derive(Default)]
pub struct CaseReport {
    pub nontrivial: bool,
    /// Histogram labels this case contributes to.
    pub classes: Vec<String>,
    /// Things excluded by construction / post-filter inside this case (label, count).
    pub excluded: Vec<(String, u64)>,
    /// Free-form counters (summed over the run).
    pub counters: Vec<(String, u64)>,
    pub violation: Option<Violation>,
}

impl CaseReport {
    pub fn class(&mut self, s: impl Into<String>) {
        let s = s.into();
        if !self.classes.contains(&s) {
            self.classes.push(s);
        }
    }
    pub fn count(&mut self, s: impl Into<String>, n: u64) {
        self.counters.push((s.into(), n));
    }
    pub fn exclude(&mut self, s: impl Into<String>, n: u64) {
        self.excluded.push((s.into(), n));
    }
    pub fn fail(&mut self, signature: impl Into<String>, detail: impl Into<String>) {
        if self.violation.is_none() {
            self.violation = Some(Violation {
                signature: signature.into(),
                detail: detail.into(),
            });
        }
    }
    pub fn failed(&self) -> bool {
        self.violation.is_some()
    }
}

pub trait Property: 'static {
    type Case: Debug + Clone + Hash + Serialize + DeserializeOwned + 'static;
    const ID: &'static str;
    /// Total number of cases for the tier (split over shards).
    fn cases(tier: Tier) -> u64;
    /// Maximum number of worker processes that make sense.
    fn max_jobs(_tier: Tier) -> usize {
        16
    }
    fn strategy(tier: Tier) -> BoxedStrategy<Self::Case>;
    /// Run one case against the real code and the oracle. Must not depend on anything but the
    /// case (and the code under test).
    fn run(case: &Self::Case) -> CaseReport;
    /// Render a case for the evidence file (samples).
    fn render(case: &Self::Case) -> Value {
        serde_json::to_value(case).unwrap_or(Value::Null)
    }
    fn rule() -> String;
    fn assumptions() -> Vec<String>;
    /// Extra deterministic work outside proptest (e.g. exhaustive small enumerations); optional.
    fn extra(_tier: Tier, _seed: u64, _shard: usize, _nshards: usize) -> Vec<(Self::Case, CaseReport)> {
        Vec::new()
    }
    /// Number of times a replay is repeated (crate-internal randomness differs between runs).
    fn replay_repeats() -> usize {
        3
    }
}

// ------------------------------------------------------------------------------------------
// panic capture
// ------------------------------------------------------------------------------------------

thread_local! {
    static LAST_PANIC: RefCell<Option<(String, String)>> = const { RefCell::new(None) };
}

pub fn install_panic_hook() {
    let verbose = std::env::var("VERIF_VERBOSE").is_ok();
    std::panic::set_hook(Box::new(move |info| {
        let loc = info
            .location()
            .map(|l| format!("{}:{}", l.file(), l.line()))
            .unwrap_or_else(|| "?".into());
        let msg = if let Some(s) = info.payload().downcast_ref::<&str>() {
            s.to_string()
        } else if let Some(s) = info.payload().downcast_ref::<String>() {
            s.clone()
        } else {
            "<non-string panic>".to_string()
        };
        if verbose {
            eprintln!("panic at {loc}: {msg}");
        }
        LAST_PANIC.with(|p| *p.borrow_mut() = Some((loc, msg)));
    }));
}

/// Runs the case, converting a panic anywhere (code under test or harness) into a violation.
pub fn run_guarded<P: Property>(case: &P::Case) -> CaseReport {
    LAST_PANIC.with(|p| *p.borrow_mut() = None);
    match catch_unwind(AssertUnwindSafe(|| P::run(case))) {
        Ok(r) => r,
        Err(_) => {
            let (loc, msg) = LAST_PANIC
                .with(|p| p.borrow_mut().take())
                .unwrap_or(("?".into(), "?".into()));
            let short_loc = loc
                .rsplit("/src/")
                .next()
                .map(|s| s.to_string())
                .unwrap_or(loc.clone());
            let mut r = CaseReport::default();
            // panics inside the harness itself are infrastructure problems, not violations
            if loc.contains("/verif/harness/") || loc.starts_with("src/") {
                r.fail(format!("HARNESS-PANIC/{short_loc}"), format!("harness panic at {loc}: {msg}"));
            } else {
                r.fail(format!("panic/{short_loc}"), format!("panic at {loc}: {msg}"));
            }
            r
        }
    }
}

// ------------------------------------------------------------------------------------------
// shard results
// ------------------------------------------------------------------------------------------

#[derive(Serialize, Deserialize, Default)]
pub struct ShardResult {
    pub evaluations: u64,
    pub nontrivial: u64,
    pub classes: BTreeMap<String, u64>,
    pub excluded: BTreeMap<String, u64>,
    pub counters: BTreeMap<String, u64>,
    pub known_hits: BTreeMap<String, u64>,
    pub samples: Vec<Value>,
    /// (signature, detail, case json, seed)
    pub violations: Vec<(String, String, Value, u64)>,
    pub harness_errors: Vec<String>,
    pub seed: u64,
}

fn case_hash<T: Hash>(c: &T) -> u64 {
    let mut h = std::collections::hash_map::DefaultHasher::new();
    c.hash(&mut h);
    h.finish()
}

pub fn derive_seed(seed: u64, prop: &str, shard: usize) -> u64 {
    // splitmix-style mixing of (seed, property, shard)
    let mut h = std::collections::hash_map::DefaultHasher::new();
    prop.hash(&mut h);
    let mut x = seed ^ h.finish().rotate_left(17) ^ ((shard as u64 + 1).wrapping_mul(0x9E3779B97F4A7C15));
    x ^= x >> 30;
    x = x.wrapping_mul(0xBF58476D1CE4E5B9);
    x ^= x >> 27;
    x = x.wrapping_mul(0x94D049BB133111EB);
    x ^= x >> 31;
    x
}

fn seed_bytes(seed: u64) -> [u8; 32] {
    let mut out = [0u8; 32];
    let mut x = seed;
    for chunk in out.chunks_mut(8) {
        x = x.wrapping_mul(0x9E3779B97F4A7C15).wrapping_add(0x632BE59BD9B4E019);
        let mut z = x;
        z ^= z >> 30;
        z = z.wrapping_mul(0xBF58476D1CE4E5B9);
        z ^= z >> 27;
        chunk.copy_from_slice(&z.to_le_bytes());
    }
    out
}

struct Acc<C> {
    res: ShardResult,
    hashes: HashSet<u64>,
    /// last failing (not-known) case seen by the closure: after shrinking this is the minimum.
    last_fail: Option<(C, Violation)>,
    stop_counting: bool,
}

fn absorb<P: Property>(
    acc: &mut Acc<P::Case>,
    findings: &Findings,
    case: &P::Case,
    rep: CaseReport,
    max_samples: usize,
) -> Result<(), TestCaseError> {
    let counting = !acc.stop_counting;
    // classify the violation first
    let mut unknown: Option<Violation> = None;
    if let Some(v) = rep.violation {
        match findings.status(P::ID, &v.signature) {
            Some(Status::Known) => {
                if counting {
                    *acc.res.known_hits.entry(v.signature.clone()).or_insert(0) += 1;
                }
            }
            _ => unknown = Some(v),
        }
    }
    if counting {
        acc.res.evaluations += 1;
        if rep.nontrivial {
            acc.res.nontrivial += 1;
            let h = case_hash(case);
            if acc.hashes.insert(h) && acc.res.samples.len() < max_samples {
                acc.res.samples.push(P::render(case));
            }
        }
        for c in rep.classes {
            *acc.res.classes.entry(c).or_insert(0) += 1;
        }
        for (c, n) in rep.excluded {
            *acc.res.excluded.entry(c).or_insert(0) += n;
        }
        for (c, n) in rep.counters {
            *acc.res.counters.entry(c).or_insert(0) += n;
        }
    }
    if let Some(v) = unknown {
        acc.stop_counting = true;
        let msg = v.signature.clone();
        acc.last_fail = Some((case.clone(), v));
        return Err(TestCaseError::fail(msg));
    }
    Ok(())
}

/// Runs one shard in this process and writes its result files.
pub fn run_shard<P: Property>(tier: Tier, seed: u64, shard: usize, nshards: usize, out: &Path) {
    install_panic_hook();
    let findings = Findings::load();
    let total = P::cases(tier);
    let cases = total / nshards as u64 + if (shard as u64) < total % nshards as u64 { 1 } else { 0 };
    let shard_seed = derive_seed(seed, P::ID, shard);
    let acc = RefCell::new(Acc::<P::Case> {
        res: ShardResult { seed: shard_seed, ..Default::default() },
        hashes: HashSet::new(),
        last_fail: None,
        stop_counting: false,
    });
    let max_samples = 3;

    // deterministic extras first
    for (case, rep) in P::extra(tier, seed, shard, nshards) {
        let _ = absorb::<P>(&mut acc.borrow_mut(), &findings, &case, rep, max_samples);
        let mut a = acc.borrow_mut();
        if let Some((c, v)) = a.last_fail.take() {
            a.res.violations.push((
                v.signature.clone(),
                v.detail.clone(),
                serde_json::to_value(&c).unwrap_or(Value::Null),
                shard_seed,
            ));
            a.stop_counting = false;
        }
    }

    // proptest part; on a failure we record it and continue with a fresh seed for the rest of the
    // budget only if the failure was a known finding (handled inside absorb). An unknown failure
    // ends this shard's search (after shrinking).
    if cases > 0 {
        let config = Config {
            cases: cases.min(u32::MAX as u64) as u32,
            failure_persistence: None,
            rng_seed: RngSeed::Fixed(shard_seed),
            max_shrink_iters: std::env::var("VERIF_MAX_SHRINK").ok().and_then(|s| s.parse().ok()).unwrap_or(2000),
            max_local_rejects: 1_000_000,
            max_global_rejects: 1_000_000,
            ..Config::default()
        };
        let rng = TestRng::from_seed(RngAlgorithm::ChaCha, &seed_bytes(shard_seed));
        let mut runner = TestRunner::new_with_rng(config, rng);
        let strategy = P::strategy(tier);
        let result = runner.run(&strategy, |case| {
            let rep = run_guarded::<P>(&case);
            absorb::<P>(&mut acc.borrow_mut(), &findings, &case, rep, max_samples)
        });
        let mut a = acc.borrow_mut();
        match result {
            Ok(()) => {}
            Err(TestError::Fail(_, _min)) => {
                if let Some((c, v)) = a.last_fail.take() {
                    a.res.violations.push((
                        v.signature.clone(),
                        v.detail.clone(),
                        serde_json::to_value(&c).unwrap_or(Value::Null),
                        shard_seed,
                    ));
                }
            }
            Err(TestError::Abort(reason)) => {
                a.res.harness_errors.push(format!("proptest aborted: {reason}"));
            }
        }
    }

    let a = acc.into_inner();
    // write hashes (binary) and result (json)
    let mut hb = Vec::with_capacity(a.hashes.len() * 8);
    for h in &a.hashes {
        hb.extend_from_slice(&h.to_le_bytes());
    }
    std::fs::write(out.with_extension("hashes"), hb).expect("write hashes");
    std::fs::write(out, serde_json::to_vec(&a.res).expect("ser")).expect("write shard result");
}

/// Generate one value from the strategy (used for smoke / sampling tools).
#[allow(dead_code)]
pub fn sample_one<P: Property>(tier: Tier, seed: u64) -> P::Case {
    let rng = TestRng::from_seed(RngAlgorithm::ChaCha, &seed_bytes(seed));
    let mut runner = TestRunner::new_with_rng(Config::default(), rng);
    P::strategy(tier).new_tree(&mut runner).expect("tree").current()
}

// ------------------------------------------------------------------------------------------
// parent: spawn shards, merge, evidence
// ------------------------------------------------------------------------------------------

pub struct RunArgs {
    pub tier: Tier,
    pub seed: u64,
    pub jobs: usize,
}

fn scratch_dir() -> PathBuf {
    let p = verif_dir().join("harness/target/vrun");
    let _ = std::fs::create_dir_all(&p);
    p
}

pub fn run_parent<P: Property>(args: &RunArgs) -> i32 {
    let start = Instant::now();
    let tier = args.tier;
    let total = P::cases(tier);
    let mut nshards = args.jobs.min(P::max_jobs(tier)).max(1);
    if total < nshards as u64 {
        nshards = total.max(1) as usize;
    }
    let exe = std::env::current_exe().expect("current exe");
    let dir = scratch_dir();
    let pid = std::process::id();
    let mut children = Vec::new();
    for i in 0..nshards {
        let out = dir.join(format!("{}-{}-{}.json", P::ID, pid, i));
        let _ = std::fs::remove_file(&out);
        let child = Command::new(&exe)
            .arg(P::ID)
            .arg("--tier")
            .arg(tier.name())
            .arg("--seed")
            .arg(args.seed.to_string())
            .arg("--shard")
            .arg(format!("{i}/{nshards}"))
            .arg("--out")
            .arg(&out)
            .stdin(Stdio::null())
            .stderr(if std::env::var("VERIF_VERBOSE").is_ok() { Stdio::inherit() } else { Stdio::null() })
            .spawn()
            .expect("spawn shard");
        children.push((i, out, child));
    }
    // watchdog: generous, only to turn a hang into exit 2
    let limit = Duration::from_secs(
        std::env::var("VERIF_WATCHDOG_S").ok().and_then(|s| s.parse().ok()).unwrap_or(tier.pick(900, 6 * 3600)),
    );
    let mut merged = ShardResult::default();
    let mut hashes: HashSet<u64> = HashSet::new();
    let mut infra: Vec<String> = Vec::new();
    for (i, out, mut child) in children {
        let status = loop {
            match child.try_wait() {
                Ok(Some(s)) => break Some(s),
                Ok(None) => {
                    if start.elapsed() > limit {
                        let _ = child.kill();
                        let _ = child.wait();
                        break None;
                    }
                    std::thread::sleep(Duration::from_millis(5));
                }
                Err(e) => {
                    infra.push(format!("shard {i}: wait error {e}"));
                    break None;
                }
            }
        };
        match status {
            None => infra.push(format!("shard {i}: watchdog/timeout")),
            Some(s) if !s.success() => infra.push(format!("shard {i}: exited abnormally ({s})")),
            Some(_) => match std::fs::read(&out).ok().and_then(|b| serde_json::from_slice::<ShardResult>(&b).ok()) {
                None => infra.push(format!("shard {i}: no result file")),
                Some(r) => {
                    merged.evaluations += r.evaluations;
                    merged.nontrivial += r.nontrivial;
                    for (k, v) in r.classes {
                        *merged.classes.entry(k).or_insert(0) += v;
                    }
                    for (k, v) in r.excluded {
                        *merged.excluded.entry(k).or_insert(0) += v;
                    }
                    for (k, v) in r.counters {
                        *merged.counters.entry(k).or_insert(0) += v;
                    }
                    for (k, v) in r.known_hits {
                        *merged.known_hits.entry(k).or_insert(0) += v;
                    }
                    if merged.samples.len() < 5 {
                        for s in r.samples {
                            if merged.samples.len() < 5 {
                                merged.samples.push(s);
                            }
                        }
                    }
                    merged.violations.extend(r.violations);
                    merged.harness_errors.extend(r.harness_errors);
                    if let Ok(b) = std::fs::read(out.with_extension("hashes")) {
                        for c in b.chunks_exact(8) {
                            hashes.insert(u64::from_le_bytes(c.try_into().unwrap()));
                        }
                    }
                }
            },
        }
        let _ = std::fs::remove_file(&out);
        let _ = std::fs::remove_file(out.with_extension("hashes"));
    }
    infra.extend(merged.harness_errors.iter().cloned());

    // violations: harness panics are infrastructure errors
    let mut real: BTreeMap<String, (String, Value, u64)> = BTreeMap::new();
    for (sig, detail, case, seed) in merged.violations.drain(..) {
        if sig.starts_with("HARNESS-PANIC") {
            infra.push(detail);
            continue;
        }
        real.entry(sig).or_insert((detail, case, seed));
    }

    let findings = Findings::load();
    let mut stdout = std::io::stdout();
    // known findings: print one line per listed known finding of this property that was hit
    for f in findings.known_for(P::ID) {
        let hits = merged.known_hits.get(&f.signature).copied().unwrap_or(0);
        let _ = writeln!(
            stdout,
            "KNOWN-FINDING: property={} {} [signature={} hits={}]",
            P::ID, f.summary, f.signature, hits
        );
    }
    let mut replay_paths = Vec::new();
    for (sig, (detail, case, seed)) in &real {
        let dir = verif_dir().join("replays").join(P::ID);
        let _ = std::fs::create_dir_all(&dir);
        let fname = format!("{}-{}.json", sanitize(sig), seed);
        let path = dir.join(fname);
        let doc = json!({
            "property": P::ID, "signature": sig, "detail": detail, "seed": seed,
            "tier": tier.name(), "case": case,
        });
        let _ = std::fs::write(&path, serde_json::to_vec_pretty(&doc).unwrap());
        let _ = writeln!(stdout, "VIOLATION property={} replay={}", P::ID, path.display());
        let _ = writeln!(stdout, "  signature: {sig}\n  detail: {}", truncate(detail, 1500));
        replay_paths.push(path);
    }

    let wall = start.elapsed().as_secs_f64();
    let distinct = hashes.len() as u64;
    let evidence = json!({
        "property_id": P::ID,
        "tier": tier.name(),
        "seed": args.seed,
        "level": "exploration",
        "coverage": {
            "evaluations": merged.evaluations,
            "distinct_nontrivial": distinct,
            "nontrivial_total": merged.nontrivial,
            "rule": P::rule(),
            "samples": merged.samples,
            "classes": merged.classes,
            "excluded": merged.excluded,
            "counters": merged.counters,
            "known_findings_hit": merged.known_hits,
            "shards": nshards,
            "exhaustive": false,
        },
        "assumptions": P::assumptions(),
        "wall_s": wall,
        "violations": real.len(),
        "infrastructure_errors": infra,
    });
    let evdir = verif_dir().join("evidence");
    let _ = std::fs::create_dir_all(&evdir);
    let _ = std::fs::write(
        evdir.join(format!("{}.json", P::ID)),
        serde_json::to_vec_pretty(&evidence).unwrap(),
    );

    let _ = writeln!(
        stdout,
        "{} tier={} seed={} cases={} distinct_nontrivial={} known_hits={} violations={} wall={:.1}s",
        P::ID, tier.name(), args.seed, merged.evaluations, distinct,
        merged.known_hits.values().sum::<u64>(), real.len(), wall
    );
    if !real.is_empty() {
        return 1;
    }
    if !infra.is_empty() {
        for e in &infra {
            let _ = writeln!(stdout, "INCONCLUSIVE {}: {}", P::ID, truncate(e, 600));
        }
        return 2;
    }
    0
}

pub fn run_replay<P: Property>(path: &Path) -> i32 {
    install_panic_hook();
    let findings = Findings::load();
    let doc: Value = match std::fs::read(path).ok().and_then(|b| serde_json::from_slice(&b).ok()) {
        Some(v) => v,
        None => {
            println!("INCONCLUSIVE {}: cannot read replay file {}", P::ID, path.display());
            return 2;
        }
    };
    let case: P::Case = match serde_json::from_value(doc.get("case").cloned().unwrap_or(Value::Null)) {
        Ok(c) => c,
        Err(e) => {
            println!("INCONCLUSIVE {}: cannot decode case: {e}", P::ID);
            return 2;
        }
    };
    let mut code = 0;
    for i in 0..P::replay_repeats() {
        let rep = run_guarded::<P>(&case);
        match rep.violation {
            None => println!("replay run {i}: property held"),
            Some(v) => {
                if v.signature.starts_with("HARNESS-PANIC") {
                    println!("INCONCLUSIVE {}: {}", P::ID, v.detail);
                    return 2;
                }
                match findings.status(P::ID, &v.signature) {
                    Some(Status::Known) => {
                        println!("KNOWN-FINDING: property={} [signature={}] {}", P::ID, v.signature, truncate(&v.detail, 600));
                    }
                    _ => {
                        println!("VIOLATION property={} replay={}", P::ID, path.display());
                        println!("  signature: {}\n  detail: {}", v.signature, truncate(&v.detail, 3000));
                        code = 1;
                    }
                }
            }
        }
    }
    code
}

fn sanitize(s: &str) -> String {
    s.chars()
        .map(|c| if c.is_ascii_alphanumeric() || c == '-' || c == '_' || c == '.' { c } else { '_' })
        .take(80)
        .collect()
}

fn truncate(s: &str, n: usize) -> String {
    if s.len() <= n {
        s.to_string()
    } else {
        let mut end = n;
        while !s.is_char_boundary(end) {
            end -= 1;
        }
        format!("{}…", &s[..end])
    }
}

/// Takes the last recorded panic of this thread ("file:line: message"), if any. Used by engines
/// that run the code under test inside spawned tasks (where tokio catches the unwind).
pub fn take_panic() -> Option<String> {
    LAST_PANIC
        .with(|p| p.borrow_mut().take())
        .map(|(l, m)| {
            let short = l.rsplit("/src/").next().unwrap_or(&l).to_string();
            format!("{short}: {m}")
        })
}

// ------------------------------------------------------------------------------------------
// coverage-guided fuzzing entry (libFuzzer targets in /verif/fuzz)
// ------------------------------------------------------------------------------------------
//
// The fuzz targets decode the raw bytes into a case with the hand-written decoders of
// `crate::fuzzdec` and then run the SAME oracle as the proptest check. (proptest's PassThrough RNG
// cannot be used for this: every `prop_oneof!` forks the RNG by halving the remaining input, and
// rand 0.9's range sampling spins for ever on the zeros an exhausted input yields.)

/// One libFuzzer iteration on an already decoded case: run the oracle, abort on a violation that is
/// not a known finding (so that libFuzzer keeps the input) after writing a replay file.
pub fn fuzz_case<P: Property>(case: &P::Case) {
    use std::sync::OnceLock;
    static FINDINGS: OnceLock<Findings> = OnceLock::new();
    let findings = FINDINGS.get_or_init(Findings::load);
    let rep = match catch_unwind(AssertUnwindSafe(|| P::run(case))) {
        Ok(r) => r,
        Err(_) => {
            dump_fuzz_case::<P>(case, "panic", "the code under test (or the harness) panicked");
            std::process::abort();
        }
    };
    if let Some(v) = rep.violation {
        if v.signature.starts_with("HARNESS-PANIC") || findings.status(P::ID, &v.signature) == Some(Status::Known) {
            return;
        }
        dump_fuzz_case::<P>(case, &v.signature, &v.detail);
        eprintln!("VIOLATION property={} signature={} detail={}", P::ID, v.signature, truncate(&v.detail, 800));
        std::process::abort();
    }
}

fn dump_fuzz_case<P: Property>(case: &P::Case, sig: &str, detail: &str) {
    let dir = verif_dir().join("replays").join(P::ID);
    let _ = std::fs::create_dir_all(&dir);
    let path = dir.join(format!("fuzz-{}-{:016x}.json", sanitize(sig), case_hash(case)));
    let doc = json!({ "property": P::ID, "signature": sig, "detail": detail, "seed": 0, "tier": "fuzz",
        "case": serde_json::to_value(case).unwrap_or(Value::Null) });
    let _ = std::fs::write(&path, serde_json::to_vec_pretty(&doc).unwrap());
    eprintln!("FUZZ-REPLAY {}", path.display());
}
