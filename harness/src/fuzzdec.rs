//! Hand-written decoders from raw fuzzer bytes to the case types of some checks (the cargo-fuzz
//! targets in /verif/fuzz use them; the oracle is the check's own `Property::run`).

use crate::{
    engines::{query as q, table as t},
    ids::RelKey,
    props::{c05, c06, c07, c08, c09, c16, c17, c18},
};

pub struct Src<'a> {
    d: &'a [u8],
    i: usize,
}

impl<'a> Src<'a> {
    pub fn new(d: &'a [u8]) -> Self {
        Src { d, i: 0 }
    }
    pub fn left(&self) -> usize {
        self.d.len().saturating_sub(self.i)
    }
    pub fn u8(&mut self) -> u8 {
        let v = self.d.get(self.i).copied().unwrap_or(0);
        self.i += 1;
        v
    }
    pub fn u16(&mut self) -> u16 {
        u16::from_le_bytes([self.u8(), self.u8()])
    }
    pub fn u32(&mut self) -> u32 {
        u32::from_le_bytes([self.u8(), self.u8(), self.u8(), self.u8()])
    }
    pub fn u64(&mut self) -> u64 {
        (self.u32() as u64) << 32 | self.u32() as u64
    }
    pub fn bool(&mut self) -> bool {
        self.u8() & 1 == 1
    }
    pub fn arr<const N: usize>(&mut self) -> [u8; N] {
        let mut a = [0u8; N];
        for x in a.iter_mut() {
            *x = self.u8();
        }
        a
    }
    pub fn rest(&mut self) -> Vec<u8> {
        let v = self.d.get(self.i..).unwrap_or(&[]).to_vec();
        self.i = self.d.len();
        v
    }
}

// ---- C05
pub fn c05_raw(data: &[u8]) -> c05::Case {
    let mut s = Src::new(data);
    let local = match s.u8() % 3 {
        0 => [0u8; 32],
        1 => [0xffu8; 32],
        _ => [0x5au8; 32],
    };
    let prefix = s.rest();
    c05::Case::Bytes { local, len: prefix.len().min(1500) as u16, seed: 0, prefix }
}

pub fn c05_unmasked(data: &[u8]) -> c05::Case {
    let mut s = Src::new(data);
    let dst = match s.u8() % 3 {
        0 => [0u8; 32],
        1 => [0xffu8; 32],
        _ => [0x5au8; 32],
    };
    let mut iv: [u8; 16] = s.arr();
    // keep clear of the counter-width exclusion
    iv[8] &= 0x7f;
    let mut rest = s.rest();
    rest.truncate(1400);
    c05::Case::Unmasked { dst, iv, rest }
}

// ---- C06
pub fn c06_raw(data: &[u8]) -> c06::Case {
    c06::Case::Bytes { len: data.len().min(2000) as u16, seed: 0, prefix: data.to_vec() }
}

// ---- C07 / C08
fn key(s: &mut Src) -> t::KeyRef {
    let b = s.u8();
    if b == 255 {
        return t::KeyRef::Local;
    }
    let bucket = if b < 224 { t::CLASS_BUCKETS[(b % 16) as usize] } else { s.u8() };
    t::KeyRef::Rel(RelKey { bucket, pat: s.u8() % crate::ids::NPATTERNS })
}

fn opt_bool(s: &mut Src) -> Option<bool> {
    match s.u8() % 3 {
        0 => None,
        1 => Some(false),
        _ => Some(true),
    }
}

fn top(s: &mut Src) -> t::TOp {
    match s.u8() % 14 {
        0 => t::TOp::Fill { bucket: t::CLASS_BUCKETS[(s.u8() % 16) as usize], n: 1 + s.u8() % 20, conn: s.u32(), inc: s.u32() },
        1 | 2 => t::TOp::InsertOrUpdate { key: key(s), value: (s.u8() % 4) as u32, connected: s.bool(), incoming: s.bool() },
        3 => t::TOp::UpdateNode { key: key(s), value: (s.u8() % 4) as u32, state: opt_bool(s) },
        4 => t::TOp::UpdateStatus { key: key(s), connected: s.bool(), direction: opt_bool(s) },
        5 => t::TOp::Remove { key: key(s) },
        6 => t::TOp::EntryInsert { key: key(s), value: (s.u8() % 4) as u32, connected: s.bool(), incoming: s.bool() },
        7 => t::TOp::EntryUpdate { key: key(s), connected: s.bool(), direction: opt_bool(s) },
        8 => t::TOp::EntryRemove { key: key(s) },
        9 => t::TOp::EntryValueMut { key: key(s), value: (s.u8() % 4) as u32 },
        10 => t::TOp::Iter,
        11 => t::TOp::ClosestKeys { target: key(s) },
        12 => t::TOp::ExpirePending { bucket: t::CLASS_BUCKETS[(s.u8() % 16) as usize] },
        _ => t::TOp::TakeAppliedPending,
    }
}

fn tcfg(s: &mut Src) -> t::TableConfig {
    let local: [u8; 32] = s.arr();
    let m = s.u8();
    t::TableConfig { local, max_incoming: if m & 0x80 != 0 { 16 } else { m % 17 }, pending_zero: s.bool() }
}

pub fn c07(data: &[u8]) -> c07::Case {
    let mut s = Src::new(data);
    let cfg = tcfg(&mut s);
    let mut ops = Vec::new();
    while s.left() > 0 && ops.len() < 300 {
        ops.push(top(&mut s));
    }
    c07::Case { cfg, ops, svc: None }
}

pub fn c08(data: &[u8]) -> c08::Case {
    let mut s = Src::new(data);
    let cfg = tcfg(&mut s);
    let nq = 1 + s.u8() % 12;
    let mut queries = Vec::new();
    for _ in 0..nq {
        let target = match s.u8() % 4 {
            0 => c08::Target::Local,
            1 => c08::Target::Stored(s.u16()),
            2 => c08::Target::Class { class: s.u16() % 257, pat: s.u8() % 7 },
            _ => c08::Target::Random(s.arr()),
        };
        queries.push(match s.u8() % 4 {
            0 => c08::Query::ClosestKeys(target),
            1 => c08::Query::ClosestValues(target),
            2 => c08::Query::ClosestPred(target, match s.u8() % 4 { 0 => c08::Pred::Parity, 1 => c08::Pred::Less((s.u8() % 5) as u32), 2 => c08::Pred::Always, _ => c08::Pred::Never }),
            _ => {
                let n = 1 + s.u8() % 6;
                let mut ds: Vec<u64> = (0..n).map(|_| { let v = s.u16(); if v < 60000 { (v % 258) as u64 } else { v as u64 * 7919 } }).collect();
                ds.dedup();
                c08::Query::ByDist { ds, cap: 1 + s.u8() % 39 }
            }
        });
    }
    let mut ops = Vec::new();
    while s.left() > 0 && ops.len() < 200 {
        ops.push(top(&mut s));
    }
    c08::Case { cfg, ops, queries }
}

// ---- C09 / C10
pub fn qcase(data: &[u8]) -> q::QCase {
    let mut s = Src::new(data);
    let variant = match s.u8() % 5 {
        0 | 1 => q::Variant::FindNode,
        2 => q::Variant::Predicate(q::PredKind::Even),
        3 => q::Variant::Predicate(q::PredKind::Less((s.u8() % 6) as u32)),
        _ => q::Variant::Predicate(if s.bool() { q::PredKind::Always } else { q::PredKind::Never }),
    };
    let target: [u8; 32] = s.arr();
    let parallelism = 1 + s.u8() % 8;
    let num_results = 1 + s.u8() % 20;
    let nu = 1 + s.u8() % 39;
    let universe = (0..nu)
        .map(|_| {
            let u = match s.u8() % 4 {
                0 => q::UId::Class { class: (s.u8() % 5) as u16, pat: s.u8() % 7 },
                1 => q::UId::Class { class: 250 + (s.u8() % 7) as u16, pat: s.u8() % 20 },
                2 => q::UId::Class { class: 1 + s.u16() % 256, pat: s.u8() % 20 },
                _ => q::UId::Rand(s.arr()),
            };
            (u, s.u8() % 6)
        })
        .collect();
    let ni = s.u8() % 60;
    let initial = (0..ni).map(|_| s.u8()).collect();
    let sorted_initial = s.u8() % 6 != 0;
    let drain_success = s.bool();
    let mut events = Vec::new();
    while s.left() > 0 && events.len() < 200 {
        let class = |b: u8| match b % 18 {
            0..=9 => q::PeerClass::InFlight,
            10..=13 => q::PeerClass::TimedOut,
            14 | 15 => q::PeerClass::Answered,
            16 => q::PeerClass::NeverContacted,
            _ => q::PeerClass::Unknown,
        };
        events.push(match s.u8() % 8 {
            0 | 1 => q::Ev::Next,
            2 => q::Ev::NextN(1 + s.u8() % 11),
            3 | 4 | 5 => {
                let c = class(s.u8());
                let sel = s.u16();
                let n = s.u8() % 8;
                q::Ev::Success { class: c, sel, returned: (0..n).map(|_| (s.u8(), s.u8() % 3)).collect() }
            }
            6 => q::Ev::Failure { class: class(s.u8()), sel: s.u16() },
            _ => q::Ev::Advance(match s.u8() % 7 { 0..=2 => q::Dt::OneSecond, 3 => q::Dt::JustBelowTimeout, 4 | 5 => q::Dt::Timeout, _ => q::Dt::ThreeTimeouts }),
        });
    }
    q::QCase { variant, target, parallelism, num_results, universe, initial, sorted_initial, events, drain_success }
}

pub fn c09(data: &[u8]) -> c09::Case {
    c09::Case::Machine(qcase(data))
}

// ---- seed corpora (valid inputs in the byte formats above), written by `vcheck FUZZSEEDS <dir>`
pub fn write_seeds(dir: &std::path::Path) {
    use crate::refmodel::{message as rm, packet as rp};
    use std::net::{IpAddr, Ipv4Addr};
    let w = |sub: &str, name: &str, bytes: &[u8]| {
        let d = dir.join(sub);
        let _ = std::fs::create_dir_all(&d);
        let _ = std::fs::write(d.join(name), bytes);
    };
    // packets of the three kinds, with and without a record
    let rec = alloy_rlp::encode(crate::keys::padded_record(3, 1, 120));
    let kinds: Vec<(&str, rp::RKind, Vec<u8>)> = vec![
        ("message", rp::RKind::Message { src_id: [7u8; 32] }, vec![0xAB; 40]),
        ("whoareyou", rp::RKind::WhoAreYou { id_nonce: [9u8; 16], enr_seq: 3 }, vec![]),
        ("handshake", rp::RKind::Handshake { src_id: [7u8; 32], sig: vec![1u8; 64], key: vec![2u8; 33], record: None }, vec![0xCD; 30]),
        ("handshake-rec", rp::RKind::Handshake { src_id: [7u8; 32], sig: vec![1u8; 64], key: vec![2u8; 33], record: Some(rec) }, vec![0xCD; 30]),
    ];
    for (i, dst) in [[0u8; 32], [0xffu8; 32], [0x5au8; 32]].iter().enumerate() {
        for (name, kind, body) in &kinds {
            let p = rp::RPacket { iv: [0x11; 16], protocol_id: *b"discv5", version: [0, 1], nonce: [3u8; 12], kind: kind.clone(), message: body.clone() };
            let (enc, _) = rp::encode(&p, dst);
            let mut raw = vec![i as u8];
            raw.extend_from_slice(&enc);
            w("c05_raw", &format!("{name}-{i}"), &raw);
            let mut un = vec![i as u8];
            un.extend_from_slice(&p.iv);
            un.extend_from_slice(&rp::header_bytes(&p));
            un.extend_from_slice(body);
            w("c05_unmasked", &format!("{name}-{i}"), &un);
        }
    }
    // messages of the six kinds
    let r1 = alloy_rlp::encode(crate::keys::padded_record(4, 1, 100));
    let r2 = alloy_rlp::encode(crate::keys::padded_record(5, 2, 300));
    let msgs = vec![
        rm::RMsg::Ping { id: vec![1], enr_seq: 1 },
        rm::RMsg::Pong { id: vec![1, 2], enr_seq: 300, ip: IpAddr::V4(Ipv4Addr::new(127, 0, 0, 1)), port: 5000 },
        rm::RMsg::FindNode { id: vec![1], distances: vec![256, 255, 0] },
        rm::RMsg::Nodes { id: vec![1], total: 2, records: vec![r1, r2] },
        rm::RMsg::Nodes { id: vec![], total: 1, records: vec![] },
        rm::RMsg::TalkReq { id: vec![9; 8], protocol: b"eth".to_vec(), request: vec![1; 60] },
        rm::RMsg::TalkResp { id: vec![0], response: vec![] },
    ];
    for (i, m) in msgs.iter().enumerate() {
        w("c06_raw", &format!("msg-{i}"), &rm::encode(m));
    }
}

// ---- C16 (same ranges as the proptest strategies: 6 buckets, 3 hot / 8 filler subnets, seq 1..3)
fn c16_ksel(s: &mut Src) -> c16::KSel {
    c16::KSel { boff: s.u8() % c16::NBOFF, idx: s.u16() }
}

fn c16_net(s: &mut Src) -> crate::keys::Net {
    use crate::keys::Net;
    match s.u8() % 16 {
        0..=5 => Net::Hot(s.u8() % 3),
        6 => Net::HotNoUdp(s.u8() % 3),
        7 => {
            let _ = s.u8();
            Net::Loopback4
        }
        8..=10 => Net::Filler(s.u8() % 8),
        11 => Net::V6Only,
        12 => Net::NoAddr,
        13 | 14 => Net::V6MappedHot(s.u8() % 3),
        _ => Net::V6Loopback,
    }
}

pub fn c16(data: &[u8]) -> c16::Case {
    let mut s = Src::new(data);
    let pending_zero = s.bool();
    let m = s.u8();
    let max_incoming = if m & 0x80 != 0 { 16 } else { m % 17 };
    let mut ops = Vec::new();
    while s.left() > 0 && ops.len() < 250 {
        let op = match s.u8() % 16 {
            0 => c16::Op::BulkFill { boff: s.u8() % c16::NBOFF, n: 14 + s.u8() % 3, conn: s.u16(), first_filler: s.u8() % 8 },
            1..=6 => c16::Op::Insert { k: c16_ksel(&mut s), net: c16_net(&mut s), seq: 1 + s.u8() % 3, connected: s.bool(), incoming: s.bool() },
            7 | 8 => c16::Op::UpdateNode { k: c16_ksel(&mut s), net: c16_net(&mut s), seq: 1 + s.u8() % 3, state: opt_bool(&mut s) },
            9 => c16::Op::UpdateStatus { k: c16_ksel(&mut s), connected: s.bool(), direction: opt_bool(&mut s) },
            10 => c16::Op::Remove { k: c16_ksel(&mut s) },
            11 => c16::Op::Iter,
            12 => c16::Op::Lookup { k: c16_ksel(&mut s) },
            13 => c16::Op::Closest { k: c16_ksel(&mut s) },
            14 => c16::Op::ByDist { boff: s.u8() % c16::NBOFF },
            _ => c16::Op::ExpirePending { boff: s.u8() % c16::NBOFF },
        };
        ops.push(op);
    }
    c16::Case { pending_zero, max_incoming, ops, svc: None }
}

// ---- C17: the vote-table companion (blocks of voters on the vote table alone)
pub fn c17_votes(data: &[u8]) -> c17::Case {
    let mut s = Src::new(data);
    let min = 2 + s.u8() % 11;
    let mut blocks = Vec::new();
    while s.left() > 0 && blocks.len() < 12 {
        blocks.push((s.u16() % 1400, 1 + s.u16() % 700, s.u8() % 6));
    }
    c17::Case { dual: true, min, n_voters: 2, first_incoming: 99, n_cands: 2, steps: vec![], expiry: false, tight_record: false, table: Some(c17::VoteTable { min, blocks }), start_bare: false }
}

// ---- C18: limiter and filter arrival sequences
fn c18_gap(s: &mut Src) -> c18::Gap {
    match s.u8() % 8 {
        0 | 1 => c18::Gap::Zero,
        2 => c18::Gap::BelowT(s.u16()),
        3 => c18::Gap::TMinus1,
        4 => c18::Gap::ExactT,
        5 => c18::Gap::BetweenTAndFull(s.u16()),
        6 => c18::Gap::Full,
        _ => c18::Gap::BeyondFull(s.u16()),
    }
}

pub fn c18(data: &[u8]) -> c18::Case {
    let mut s = Src::new(data);
    if s.bool() {
        let n = 1 + s.u8() % 32;
        let t_ns = match s.u8() % 4 {
            0 => 1_000,
            1 => 1_000 + s.u32() as u64 % 999_000,
            2 => 1_000_000 + s.u32() as u64 % 999_000_000,
            _ => 1_000_000_000 + s.u64() % 9_000_000_001,
        };
        let extra = if s.bool() { s.u8() % 32 } else { 0 };
        let mut events = Vec::new();
        while s.left() > 0 && events.len() < 600 {
            events.push(if s.u8() % 8 == 0 { c18::LEv::Prune } else { c18::LEv::Arrive { key: s.u8() % 6, gap: c18_gap(&mut s), tokens: if s.u8() % 10 == 0 { 1 + s.u8() % 33 } else { 1 } } });
        }
        if events.is_empty() {
            events.push(c18::LEv::Prune);
        }
        c18::Case::Limiter(c18::LimCase { n, t_ns, extra, events })
    } else {
        let (ip_burst, node_burst, total_burst) = (1 + s.u8() % 6, 1 + s.u8() % 6, 1 + s.u8() % 24);
        let ban_1h = s.bool();
        let per_ip_features = s.u8() % 5 == 0;
        let ip_family = s.u8() % 4;
        let mut events = Vec::new();
        while s.left() > 0 && events.len() < 80 {
            events.push(match s.u8() % 16 {
                0 => c18::FEv::PermitIp { ip: s.u8() % 3, on: s.bool() },
                1 => c18::FEv::BanIp { ip: s.u8() % 3, on: s.bool() },
                2 => c18::FEv::PermitNode { node: s.u8() % 4, on: s.bool() },
                3 => c18::FEv::BanNode { node: s.u8() % 4, on: s.bool() },
                4 => c18::FEv::Prune,
                _ => c18::FEv::Arrive { ip: s.u8() % 3, node: s.u8() % 4 },
            });
        }
        if events.is_empty() {
            events.push(c18::FEv::Prune);
        }
        c18::Case::Filter(c18::FilCase { ip_burst, node_burst, total_burst, ban_1h, per_ip_features, events, ip_family, no_node_quota: false })
    }
}
