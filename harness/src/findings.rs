//! known_findings.json: committed list of findings; never written at run time.

use serde::Deserialize;
use std::path::PathBuf;

#[derive(Clone, Copy, Debug, PartialEq, Eq, Deserialize)]
#[serde(rename_all = "lowercase")]
pub enum Status {
    Known,
    Fixed,
}

#[derive(Clone, Debug, Deserialize)]
pub struct Finding {
    pub property: String,
    pub signature: String,
    pub status: Status,
    #[serde(default)]
    pub summary: String,
    #[serde(default)]
    #[allow(dead_code)]
    pub commit: Option<String>,
    #[serde(default)]
    #[allow(dead_code)]
    pub replay: Option<String>,
}

#[derive(Default)]
pub struct Findings(Vec<Finding>);

impl Findings {
    pub fn load() -> Self {
        let p = crate::runner::verif_dir().join("known_findings.json");
        match std::fs::read(&p) {
            Ok(b) => {
                #[derive(Deserialize)]
                struct Doc {
                    findings: Vec<Finding>,
                }
                match serde_json::from_slice::<Doc>(&b) {
                    Ok(d) => Findings(d.findings),
                    Err(e) => {
                        eprintln!("warning: known_findings.json unreadable: {e}");
                        Findings::default()
                    }
                }
            }
            Err(_) => Findings::default(),
        }
    }

    /// Status of a (property, signature) pair; only `known` suppresses.
    pub fn status(&self, property: &str, signature: &str) -> Option<Status> {
        self.0
            .iter()
            .find(|f| f.property == property && f.signature == signature)
            .map(|f| f.status)
    }

    pub fn known_for<'a>(&'a self, property: &'a str) -> impl Iterator<Item = &'a Finding> + 'a {
        self.0
            .iter()
            .filter(move |f| f.property == property && f.status == Status::Known)
    }
}
