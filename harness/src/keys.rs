//! Deterministic key / record pool: index -> fixed secp256k1 secret, so that node ids, bucket
//! placement and signatures are identical across runs and processes.

use crate::ids::Id;
use discv5::enr::{CombinedKey, EnrKey, NodeId};
use discv5::Enr;
use std::{
    cell::RefCell,
    collections::HashMap,
    net::{Ipv4Addr, Ipv6Addr},
};

pub fn secret(i: u32) -> [u8; 32] {
    let mut b = [0x11u8; 32];
    b[0] = 0x01;
    b[24..28].copy_from_slice(&0xD15C_05F5u32.to_be_bytes());
    b[28..32].copy_from_slice(&(i + 1).to_be_bytes());
    b
}

pub fn key(i: u32) -> CombinedKey {
    let mut s = secret(i);
    CombinedKey::secp256k1_from_bytes(&mut s).expect("valid secret")
}

thread_local! {
    static IDS: RefCell<Vec<Id>> = const { RefCell::new(Vec::new()) };
    static ENRS: RefCell<HashMap<RecSpec, Enr>> = RefCell::new(HashMap::new());
}

/// Node id of pool key `i`.
pub fn id_of(i: u32) -> Id {
    IDS.with(|v| {
        let mut v = v.borrow_mut();
        while v.len() <= i as usize {
            let n = v.len() as u32;
            let k = key(n);
            let id: NodeId = k.public().into();
            v.push(id.raw());
        }
        v[i as usize]
    })
}

/// Address family / subnet of a generated record.
#[derive(Clone, Copy, Debug, PartialEq, Eq, Hash, serde::Serialize, serde::Deserialize)]
pub enum Net {
    /// 10.0.<n>.x : "hot" /24 subnets
    Hot(u8),
    /// 10.1.<n>.x : filler /24 subnets
    Filler(u8),
    /// only an IPv6 address
    V6Only,
    /// no address at all
    NoAddr,
    /// only an IPv6 address, the IPv4-mapped form of an address in hot subnet <n> (::ffff:10.0.<n>.x)
    V6MappedHot(u8),
    /// only an IPv6 address with 96 leading zero bits (::1 for everybody, told apart by the port)
    V6Loopback,
    /// an IPv4 address in hot subnet <n> but no UDP port (ip4 + tcp4 only)
    HotNoUdp(u8),
    /// 127.0.0.x : an IPv4 loopback /24 (with a UDP port)
    Loopback4,
}

#[derive(Clone, Copy, Debug, PartialEq, Eq, Hash, serde::Serialize, serde::Deserialize)]
pub struct RecSpec {
    pub key: u32,
    pub net: Net,
    pub seq: u8,
}

pub fn record(spec: RecSpec) -> Enr {
    ENRS.with(|m| {
        if let Some(e) = m.borrow().get(&spec) {
            return e.clone();
        }
        let k = key(spec.key);
        let host = (spec.key % 250 + 1) as u8;
        let mut b = Enr::builder();
        b.seq(spec.seq as u64);
        match spec.net {
            Net::Hot(n) => {
                b.ip4(Ipv4Addr::new(10, 0, n, host)).udp4(9000 + (spec.key % 1000) as u16);
            }
            Net::Filler(n) => {
                b.ip4(Ipv4Addr::new(10, 1, n, host)).udp4(9000 + (spec.key % 1000) as u16);
            }
            Net::V6Only => {
                b.ip6(Ipv6Addr::new(0x2001, 0xdb8, 0, 0, 0, 0, (spec.key >> 16) as u16, spec.key as u16))
                    .udp6(9000 + (spec.key % 1000) as u16);
            }
            Net::NoAddr => {}
            Net::V6MappedHot(n) => {
                b.ip6(Ipv4Addr::new(10, 0, n, host).to_ipv6_mapped()).udp6(9000 + (spec.key % 1000) as u16);
            }
            Net::V6Loopback => {
                b.ip6(Ipv6Addr::LOCALHOST).udp6(9000 + (spec.key % 1000) as u16);
            }
            Net::HotNoUdp(n) => {
                b.ip4(Ipv4Addr::new(10, 0, n, host)).tcp4(9000 + (spec.key % 1000) as u16);
            }
            Net::Loopback4 => {
                b.ip4(Ipv4Addr::new(127, 0, 0, host)).udp4(9000 + (spec.key % 1000) as u16);
            }
        }
        let e = b.build(&k).expect("record builds");
        m.borrow_mut().insert(spec, e.clone());
        e
    })
}

thread_local! {
    static PADDED: RefCell<HashMap<(u32, u8, u16), Enr>> = RefCell::new(HashMap::new());
}

/// A record of pool key `key` with an IPv4 address and an extra "pad" field so that its RLP
/// encoding has (close to) `target_size` bytes; `target_size` is clamped to the 300-byte maximum.
/// Returns the largest record not exceeding the target.
pub fn padded_record(key_idx: u32, seq: u8, target_size: u16) -> Enr {
    let target = target_size.min(300);
    PADDED.with(|m| {
        if let Some(e) = m.borrow().get(&(key_idx, seq, target)) {
            return e.clone();
        }
        let k = key(key_idx);
        // The builder's size check over-estimates by a few bytes (its largest record has ~295 bytes),
        // `Enr::insert` checks the real size: build the base with seq - 1 and insert the pad field
        // (which bumps the sequence number) to reach every size up to exactly 300.
        let via_insert = seq >= 1;
        let base_seq = if via_insert { seq as u64 - 1 } else { seq as u64 };
        let base = {
            let mut b = Enr::builder();
            b.seq(base_seq)
                .ip4(Ipv4Addr::new(10, 2, (key_idx >> 8) as u8, (key_idx % 250 + 1) as u8))
                .udp4(9000 + (key_idx % 1000) as u16);
            b.build(&k).expect("base record")
        };
        let build = |pad: usize| -> Option<Enr> {
            let bytes = vec![0xEEu8; pad];
            if via_insert {
                let mut e = base.clone();
                e.insert("pad", &bytes.as_slice(), &k).ok()?;
                Some(e)
            } else {
                let mut b = Enr::builder();
                b.seq(seq as u64)
                    .ip4(Ipv4Addr::new(10, 2, (key_idx >> 8) as u8, (key_idx % 250 + 1) as u8))
                    .udp4(9000 + (key_idx % 1000) as u16);
                if pad > 0 {
                    b.add_value("pad", &bytes.as_slice());
                }
                b.build(&k).ok()
            }
        };
        let mut best = build(0).expect("unpadded record");
        if (best.size() as u16) < target {
            // search the pad length giving the largest size <= target
            let mut pad = (target as usize).saturating_sub(best.size());
            loop {
                if let Some(e) = build(pad) {
                    if e.size() <= target as usize {
                        best = e;
                        break;
                    }
                }
                if pad == 0 {
                    break;
                }
                pad -= 1;
            }
        }
        debug_assert_eq!(best.seq(), seq as u64);
        m.borrow_mut().insert((key_idx, seq, target), best.clone());
        best
    })
}
