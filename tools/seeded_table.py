#!/usr/bin/env python3
"""Regenerates the table of section 11.7 of DESIGN.md (between the SEEDED-TABLE markers) from seeded/*/meta.json."""
import json, glob, re, os
rows = []
for d in sorted(glob.glob('/verif/seeded/C*-m*')):
    m = json.load(open(d + '/meta.json'))
    name = os.path.basename(d)
    summ = m.get('summary', '').replace('\n', ' ').replace('|', '/')
    first = summ if len(summ) <= 230 else summ[:227] + '...'
    sigs = ', '.join(sorted(set(m.get('caught_by', []))))[:170] or '-'
    state = 'caught' if m.get('caught') else 'not caught'
    if m.get('history'):
        state += ' (after strengthening)' if m.get('caught') else ' (by decision, see below)'
    rows.append(f"| {name} | {first} | {state} | {sigs} |")
table = "| seeded change | what it does (author's summary, shortened) | result | signatures of the violations reported |\n|---|---|---|---|\n" + "\n".join(rows)
notes = []
for d in sorted(glob.glob('/verif/seeded/C*-m*')):
    m = json.load(open(d + '/meta.json'))
    if m.get('history'):
        notes.append(f"* **{os.path.basename(d)}** - {m['history']}")
block = "<!-- SEEDED-TABLE-BEGIN -->\n" + table + "\n\nChanges that were missed at first, and what was changed in the checks:\n\n" + "\n".join(notes) + "\n<!-- SEEDED-TABLE-END -->"
p = '/verif/DESIGN.md'
s = open(p).read()
if '<!-- SEEDED-TABLE-BEGIN -->' in s:
    s = re.sub(r'<!-- SEEDED-TABLE-BEGIN -->.*?<!-- SEEDED-TABLE-END -->', lambda _: block, s, flags=re.S)
else:
    s = s.rstrip('\n') + '\n\n' + block + '\n'
open(p, 'w').write(s)
n = len(rows); c = sum(r.split('|')[3].strip().startswith('caught') for r in rows)
print(f"{n} seeded changes, {c} caught")
