#!/bin/bash
# usage: tools/readopt.sh <seeded dir name, e.g. C15-m1> <history note> <checks to run...>
# Re-runs checks against an already adopted seeded change and updates caught / caught_by / history in its meta.json.
set -u
d="/verif/seeded/$1"; note="$2"; shift 2
res=$(/verif/tools/mutant.sh "$d/patch.diff" "$@" 2>&1)
echo "$res" | grep -E "^==|VIOLATION|signature|tier="
python3 - "$d/meta.json" "$note" "$res" <<'PY'
import json,sys
p,note,res=sys.argv[1:4]
m=json.load(open(p))
caught=[l.split("signature:")[1].strip() for l in res.splitlines() if "signature:" in l]
m["my_checks_run"]=[l for l in res.splitlines() if l.startswith("==") or "tier=" in l]
m["caught_by"]=caught; m["caught"]=bool(caught)
if note: m["history"]=note
json.dump(m,open(p,"w"),indent=1)
print("caught:",bool(caught),caught)
PY
