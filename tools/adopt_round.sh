#!/bin/bash
# usage: tools/adopt_round.sh <cxx (lower case)> <checks for m3> -- <checks for m4>
# Confirms (under the shared test lock) and adopts seeded changes m3 and m4 of a round-2 worktree /tmp/wt/<cxx>.
set -u
p="$1"; shift
P=$(echo "$p" | tr c C)
a=(); b=(); cur=a
for x in "$@"; do if [ "$x" = "--" ]; then cur=b; continue; fi; if [ $cur = a ]; then a+=("$x"); else b+=("$x"); fi; done
[ ${#b[@]} -eq 0 ] && b=("${a[@]}")
mkdir -p /tmp/wt/conf
for m in ${ROUND_MS:-m3 m4}; do
  [ -d /tmp/wt/$p/seeded/$m ] || { echo "no $m"; continue; }
  if [ ! -s /tmp/wt/conf/$p-$m.txt ] || [ "${RECONFIRM:-0}" = 1 ]; then flock /tmp/wt/test.lock /verif/tools/confirm_seed.sh /tmp/wt/$p /tmp/wt/$p/seeded/$m ${p}_$m > /tmp/wt/conf/$p-$m.txt 2>&1; fi
  cat /tmp/wt/conf/$p-$m.txt
  if [ $m = m3 ] || [ $m = m5 ]; then /verif/tools/adopt2.sh /tmp/wt/$p $m $P /tmp/wt/conf/$p-$m.txt "${a[@]}" 2>&1 | tail -2
  else /verif/tools/adopt2.sh /tmp/wt/$p $m $P /tmp/wt/conf/$p-$m.txt "${b[@]}" 2>&1 | tail -2; fi
done
git -C /repo status --short | head -3
