#!/bin/bash
# usage: tools/mutant_replay.sh <patch.diff> <Cxx> <replay.json>  -- applies patch, runs one replay, restores
set -u
patch="$1"; prop="$2"; rp="$3"
if [ -n "$(git -C /repo status --porcelain --untracked-files=no)" ]; then echo "REFUSING: /repo has local modifications"; exit 3; fi
restore() { git -C /repo checkout -- . ; }
trap restore EXIT
git -C /repo apply "$patch" || { echo "PATCH DOES NOT APPLY"; exit 3; }
/verif/check "$prop" --replay "$rp" 2>&1 | grep -E "VIOLATION|signature|held|INCONCLUSIVE" | head -4
