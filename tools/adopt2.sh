#!/bin/bash
# usage: tools/adopt2.sh <worktree> <m1|m2> <Cxx> <conf file> <checks to run...>
set -u
wt="$1"; m="$2"; id="$3"; conff="$4"; shift 4
sd="$wt/seeded/$m"; dst="/verif/seeded/$id-$m"; mkdir -p "$dst"
conf=$(cat "$conff")
res=$(/verif/tools/mutant.sh "$sd/patch.diff" "$@" 2>&1)
echo "$res" | grep -E "^==|VIOLATION|signature|tier="
cp "$sd/patch.diff" "$dst/patch.diff"; cp "$sd/demo.diff" "$dst/demo.diff" 2>/dev/null
for f in INSTRUCTIONS.txt demo.txt demo.rs README.txt; do [ -f "$sd/$f" ] && cp "$sd/$f" "$dst/$f"; done
python3 - "$sd/meta.json" "$dst/meta.json" "$id" "$conf" "$res" <<'PY'
import json,sys
src,dst,pid,conf,res=sys.argv[1:6]
try: m=json.load(open(src))
except Exception: m={}
caught=[l.split("signature:")[1].strip() for l in res.splitlines() if "signature:" in l]
out={"property":m.get("property",pid),"breaks":m.get("property",pid),"summary":m.get("summary",""),"needs_to_manifest":m.get("needs",""),
     "author":"independent sub-agent (saw only the property text and a scratch worktree)",
     "author_ran":m.get("ran",[]),
     "confirmed_by_me":conf.splitlines(),
     "my_checks_run":[l for l in res.splitlines() if l.startswith("==") or "tier=" in l],
     "caught_by":caught, "caught":bool(caught)}
json.dump(out,open(dst,"w"),indent=1)
print("caught:",bool(caught),caught)
PY
