#!/bin/bash
# usage: tools/fuzz.sh <Cxx> <seed> [scale]
# Coverage-guided campaign (libFuzzer via cargo-fuzz) for the fuzz targets of one property, with the
# check's own oracle inside the target. Fixed number of runs per target (scaled by <scale>, default 1).
# Prints VIOLATION lines for crashes (the target writes a replay JSON) and merges statistics into
# /verif/evidence/<Cxx>.json under coverage.fuzz. Exit 0 / 1 / 2.
set -u
prop="$1"; seed="${2:-1}"; scale="${3:-1}"
case "$prop" in
  C05) targets="c05_raw:1500000 c05_unmasked:2500000" ;;
  C06) targets="c06_raw:1200000" ;;
  C07) targets="c07_ops:12000" ;;
  C08) targets="c08_ops:80000" ;;
  C09) targets="c09_events:500000" ;;
  C10) targets="c10_events:400000" ;;
  C16) targets="c16_ops:8000" ;;
  C17) targets="c17_votes:8000" ;;
  C18) targets="c18_events:600000" ;;
  *) exit 0 ;;
esac
export CARGO_NET_OFFLINE=true
cd /verif/fuzz || exit 2
[ "$seed" = "0" ] && seed=1
if ! out=$(cargo +nightly fuzz build --fuzz-dir /verif/fuzz 2>&1); then
  echo "$out" | tail -20; echo "INCONCLUSIVE $prop: fuzz targets do not build"; exit 2
fi
work=/verif/fuzz/target/campaign/$prop-$$
rm -rf "$work"; mkdir -p "$work"
/verif/harness/target/release/vcheck FUZZSEEDS "$work/seeds" >/dev/null 2>&1
pids=""
for tr in $targets; do
  t=${tr%%:*}; runs=${tr##*:}; runs=$(( runs * scale ))
  mkdir -p "$work/corpus-$t"; [ -d "$work/seeds/$t" ] && cp "$work/seeds/$t"/* "$work/corpus-$t"/ 2>/dev/null
  ( cd "$work" && /verif/fuzz/target/x86_64-unknown-linux-gnu/release/$t "corpus-$t" -runs=$runs -seed=$seed -len_control=0 -max_len=2048 -print_final_stats=1 -artifact_prefix="$work/crash-$t-" > "$work/$t.log" 2>&1; echo $? > "$work/$t.rc" ) &
  pids="$pids $!"
done
wait $pids
rc=0
python3 - "$prop" "$work" "$seed" $targets <<'PY'
import json,sys,re,os
prop,work,seed=sys.argv[1:4]; targets=sys.argv[4:]
stats={}; viol=[]; bad=[]
for tr in targets:
    t,runs=tr.split(':')
    log=open(f"{work}/{t}.log",errors='replace').read()
    rcv=int(open(f"{work}/{t}.rc").read().strip() or 0)
    def g(pat,default=0):
        m=re.findall(pat,log); return int(m[-1]) if m else default
    st={"runs_requested":int(runs),"executed":g(r"stat::number_of_executed_units:\s+(\d+)"),"exec_per_s":g(r"stat::average_exec_per_sec:\s+(\d+)"),
        "coverage_edges":g(r"cov: (\d+)"),"features":g(r"ft: (\d+)"),"corpus_units":g(r"corp: (\d+)/"),"exit_code":rcv}
    stats[t]=st
    for m in re.findall(r"FUZZ-REPLAY (\S+)",log): viol.append(m)
    if rcv!=0 and not re.search(r"FUZZ-REPLAY",log): bad.append(f"{t}: exit {rcv}: "+log.strip().splitlines()[-1][:200] if log.strip() else f"{t}: exit {rcv}")
ev=f"/verif/evidence/{prop}.json"
try:
    e=json.load(open(ev)); e["coverage"]["fuzz"]={"engine":"libFuzzer (cargo-fuzz), oracle inside the target","seed":int(seed),"targets":stats}
    if viol: e["violations"]=e.get("violations",0)+len(viol)
    json.dump(e,open(ev,"w"),indent=1)
except Exception as ex: bad.append(f"evidence merge failed: {ex}")
for v in viol: print(f"VIOLATION property={prop} replay={v}")
for b in bad: print(f"INCONCLUSIVE {prop}: fuzz {b}")
print(f"{prop} fuzz: "+", ".join(f"{t} {s['executed']} runs cov {s['coverage_edges']} corpus {s['corpus_units']}" for t,s in stats.items()))
sys.exit(1 if viol else (2 if bad else 0))
PY
rc=$?
rm -rf "$work"
exit $rc
