#!/bin/bash
# usage: tools/confirm_seed.sh <worktree> <seed dir (with patch.diff, demo.diff)> <demo test name filter>
# Confirms in the scratch worktree: (1) patch -> original suite passes, (2) patch+demo -> demo fails, (3) demo only -> demo passes.
set -u
wt="$1"; sd="$2"; filt="$3"
cd "$wt" || exit 3
git checkout -q -- src; git clean -fdq -- src
export CARGO_NET_OFFLINE=true
git apply "$sd/patch.diff" || { echo "PATCH DOES NOT APPLY"; exit 3; }
r1=$(cargo test --workspace --no-fail-fast --offline 2>&1 | grep -E "^test result" | head -1)
echo "(1) patch only, original suite: $r1"
git apply "$sd/demo.diff" || { echo "DEMO DOES NOT APPLY"; git checkout -q -- src; exit 3; }
r2=$(cargo test --lib --offline "$filt" 2>&1 | grep -E "^test result|^test .*$filt" | tr '\n' ' ')
echo "(2) patch + demo: $r2"
git checkout -q -- src; git clean -fdq -- src
git apply "$sd/demo.diff"
r3=$(cargo test --lib --offline "$filt" 2>&1 | grep -E "^test result|^test .*$filt" | tr '\n' ' ')
echo "(3) demo only: $r3"
git checkout -q -- src; git clean -fdq -- src
