#!/bin/bash
# usage: tools/mutant.sh <patch.diff> <Cxx> [<Cyy> ...]
# Applies a patch to /repo's working tree, runs the quick checks, and ALWAYS restores the tree.
set -u
patch="$1"; shift
if [ -n "$(git -C /repo status --porcelain --untracked-files=no)" ]; then echo "REFUSING: /repo has local modifications"; exit 3; fi
restore() { git -C /verif ls-files --others -- replays | grep -v "/F[0-9]" | (cd /verif && xargs -r rm -f) >/dev/null 2>&1; git -C /repo checkout -- . ; git -C /repo clean -fdq -- src >/dev/null 2>&1; }
trap restore EXIT
if ! git -C /repo apply "$patch"; then echo "PATCH DOES NOT APPLY"; exit 3; fi
for c in "$@"; do
  echo "== $c against $(basename $patch)"
  /verif/check "$c" --tier quick 2>&1 | grep -E "VIOLATION|signature|INCONCLUSIVE|KNOWN|tier=" | head -8
  # do not keep replay files produced by mutants
done
