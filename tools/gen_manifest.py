#!/usr/bin/env python3
"""Generates /verif/MANIFEST.json from the table below (kept in one place so it stays valid)."""
import json, subprocess

HOOK_COMMITS = subprocess.run(
    ["git", "-C", "/repo", "log", "--format=%h %s", "--grep=^verif hooks"],
    capture_output=True, text=True).stdout.strip().splitlines()

CHECKS = {
 "C07": dict(engine="table", technique="stateful property-based testing (proptest op histories + invariant after every step)",
   text="Exploration: thousands of generated operation histories per run over the real KBucketsTable, all structural invariants and pending life-cycle transition rules evaluated after every elementary operation; failures shrink to a minimal op list. Finite sample of an infinite space: no proof.",
   note="Trusted: the crate's non-mutating accessors used for observation; pending deadlines only in the regimes 0 / 1h+forced expiry (guarded hook). Keys are L^d with crafted d (all bucket classes incl. 0..3). Thorough tier adds a coverage-guided libFuzzer campaign over byte-decoded op histories (same interpreter and invariants). One case in 151 is a service-engine companion: the table a real Discv5 builds from a configuration with incoming_bucket_limit 0..16 is checked against the configured limit after every session report.",
   ref="7.2 / C07"),
 "C08": dict(engine="table", technique="property-based testing against a reference oracle (sorted full scan with independent XOR arithmetic)",
   text="Exploration: generated tables (incl. buckets 0..3 and pending nodes) and targets in every log2 class 0..256; every closest_* output compared element by element with the sorted scan, nodes_by_distances compared with the scan. Found the bucket-0 double visit on the pinned tree (fixed).",
   note="Trusted: iter_ref as the full scan; harness's own 256-bit XOR/log2 arithmetic. Thorough tier adds a coverage-guided libFuzzer campaign over byte-decoded tables/targets.",
   ref="7.2 / C08"),
}

CHECKS["C16"] = dict(engine="table", technique="stateful property-based testing (proptest op histories over the real IP filters, invariant after every step)",
   text="Exploration: generated histories of the filter-respecting table API with signed records drawn from few /24 subnets, full buckets, pending promotion and subnet-moving updates; per-bucket (2) and per-table (10) limits evaluated after every elementary op. Found the pending-slot bypass of the table limit on the pinned tree (fixed).",
   note="Trusted: enr crate for records; Entry::insert/value_mut excluded (documented to bypass filters); pending deadlines in regimes 0 / 1h+forced. Keys are real key hashes (buckets 250..255). One case in 24 is a companion through the public API: a real service configured with ip_limit (IPv4 / IPv6 / dual stack); a clone of its table must respect the limits, also after promotion of waiting nodes. Thorough tier adds a coverage-guided libFuzzer campaign over byte-decoded op histories (target c16_ops, same interpreter and invariants).",
   ref="7.2 / C16")

CHECKS["C09"] = dict(engine="query", technique="stateful property-based testing (event histories vs. an independent ledger; step-bounded drain as termination oracle)",
   text="Exploration: tens of thousands of generated event histories per run against the real FindNodeQuery / PredicateQuery (explicit clock) and the real QueryPool; ledger invariants for contacted-once, parallelism bound, no dead state, absorbing finish, bounded drain, pool returns each query exactly once. Liveness is decided in its bounded-safety form.",
   note="Assumes a transport that gives every issued request exactly one outcome (C04); the stalled mode is read via a guarded accessor; QueryPool timeouts only in regimes 0 / 1h (it reads std::time::Instant). Thorough tier adds a coverage-guided libFuzzer campaign over byte-decoded event histories (same ledger).",
   ref="7.3 / C09")
CHECKS["C10"] = dict(engine="query", technique="property-based testing with a ledger oracle over event histories",
   text="Exploration: the same generated histories; the final result is checked for size, distinctness, strict distance order (harness arithmetic), every id contacted and successfully answered while outstanding, predicate provenance, and completeness when short.",
   note="Candidate set defined as documented (first num_results of the supplied sequence + ids in accepted successes). Same transport assumption as C09. Thorough tier adds a coverage-guided libFuzzer campaign over byte-decoded event histories (same ledger). One case in 14 is a whole lookup through Discv5::find_node / find_node_predicate on a real service behind a scripted handler (result as the caller sees it; requests left open; a second lookup with late answers of the first).",
   ref="7.3 / C10")

CHECKS["C18"] = dict(engine="filter", technique="differential property-based testing against an exact token-bucket reference + metamorphic prune relation + ledger assertions on the real Filter",
   text="Exploration: generated arrival sequences against the real Limiter (explicit time) compared decision-by-decision with an exact integer token bucket, with a never-pruned twin (metamorphic) and a direct all-pairs window bound; generated arrival/permit/ban sequences against the real Filter and the real global permit/ban list with order-independent assertions (banned dropped, permitted passes, conforming passes, bursts bounded, offenders banned for >= the configured duration).",
   note="Filter reads the real clock: only quotas with a 1 h period are used there (no replenishment within a case). Global PERMIT_BAN_LIST reset per case, one case at a time per process. Also drives the real receive task (VRecv hook: all packet kinds, exemptions) and, in one case in ~300, a running handler's periodic un-ban check in virtual time. Thorough tier adds a coverage-guided libFuzzer campaign over byte-decoded limiter / filter arrival sequences (target c18_events).",
   ref="7.6 / C18")

CHECKS["C05"] = dict(engine="codec", technique="property-based testing: round-trip law + differential against a reference codec written from the wire spec + mutation in the unmasked domain",
   text="Exploration: hundreds of thousands of generated packets per run: structured packets of all kinds and sizes (incl. exactly 1280 bytes and overflow) must encode byte-identically to an independent reference encoder and round-trip with the exact authenticated data; field-level mutations applied before masking and arbitrary byte strings are judged by a reference decoder with the statement's must-reject list; any panic is a violation.",
   note="Trusted: aes/ctr crates, enr crate for record validity. For IVs whose low 64 bits wrap inside one datagram only the comparison with the reference layout is excluded and counted (CTR counter width is not fixed by the spec); the crate's own round trip is still required for them. Thorough tier adds two coverage-guided libFuzzer campaigns (raw datagrams; datagrams assembled in the unmasked domain) with the same oracle inside the target. One case in ~330 is a receive-path companion (well-formed datagrams of 71..1400 bytes through the real receive task of a handler).",
   ref="7.1 / C05")
CHECKS["C06"] = dict(engine="codec", technique="property-based testing: round-trip law + differential against a reference RLP codec + RLP-structure mutation",
   text="Exploration: generated messages of all six kinds with boundary-biased fields and signed records must encode byte-identically to an independent RLP reference and round-trip (decode-encode idempotent); RLP-structure mutations and arbitrary bytes are judged by a reference decoder with the statement's must-reject list; any panic is a violation.",
   note="Trusted: enr crate for record validity. Leniencies outside the statement's reject list are counted (tolerated_leniency), not reported: a NODES record list whose own length disagrees with what follows is tolerated only when everything after the list header is a sequence of valid signed records. Thorough tier adds a coverage-guided libFuzzer campaign over raw message bytes with the same oracle inside the target.",
   ref="7.1 / C06")

CHECKS["C13"] = dict(engine="wire", technique="stateful property-based testing over generated network/attacker schedules (real handlers on a virtual wire, paused clock), equation checked after every step",
   text="Exploration: thousands of generated schedules per run over 2..4 real handlers with the harness as network, clock, applications and attacker; after every step the exemption map of every handler must equal (active requests + outstanding challenges) per address, and be empty after the drain. Found two leaks on the pinned tree (second WHOAREYOU; handshake failing after its challenge was taken), both fixed.",
   note="Handler internals are read through a guarded read-only probe; sockets are replaced by channels feeding the real receive path; tokio virtual time. One case in 61 is a receive-task companion (VRecv hook): an address WITH an exemption is really let through (banned / over quota / scoped IPv6 sources), one without is not.",
   ref="7.5 / C13")

CHECKS["C04"] = dict(engine="wire", technique="stateful property-based testing over generated fault schedules with a request/outcome ledger (real handlers, virtual wire, paused clock)",
   text="Exploration: thousands of generated schedules per run (loss, duplication, reordering, delay across timeouts, challenges both ways, late or missing application answers, peer restarts, record-less contacts); an independent ledger counts responses and failures per request id, checks exactly-one-terminal-outcome after a drain, the 1+retries transmission bound per session key (by decrypting captured datagrams) and that every Timeout is earned. Found two defects on the pinned tree (queued request never released; spurious Timeout from the internal ENR request), both fixed.",
   note="Virtual time with 50 ms stamp granularity; keys for decrypting captured traffic come from the guarded probe; requests submitted at a peer before its restart are not judged.",
   ref="7.0 / C04")

CHECKS["C01"] = dict(engine="wire", technique="property-based adversary generation: attack scripts composed from the real handshake primitives against a real handler, history invariant after every step",
   text="Exploration: thousands of generated impersonation scripts per run (claimed id known/unknown/random; attacker-signed, garbage, empty, truncated signatures; own / genuine / third-party / no record with all seq relations and address fields; valid and invalid ephemeral keys; follow-up messages under attacker-derivable keys; replays; forged WHOAREYOUs) interleaved with genuine traffic; no effect may ever be attributed to a foreign id at an attacker address. Found the missing record-id/src-id binding on the pinned tree (fixed).",
   note="Crypto primitives trusted. Outbound Established(Outgoing) before the responder proved itself is protocol design and not asserted (scope note in DESIGN.md). One case in 61 is a service-engine companion (the service's reaction to who-are-you queries must not touch the routing table).",
   ref="7.0 / C01")

CHECKS["C03"] = dict(engine="wire", technique="stateful property-based testing with replay injection and a ledger of emitted challenges (real handlers, virtual wire, paused clock)",
   text="Exploration: generated honest exchanges with restarts plus re-injection of any logged datagram at any later point and from any source address, and forged WHOAREYOUs with in-flight / stale / foreign / random nonces; an independent ledger of every WHOAREYOU a node emitted decides whether an observed session creation / re-keying / Established report was backed by an unconsumed, unexpired challenge to exactly that (id, address); handshake emissions must be backed by a WHOAREYOU echoing an in-flight nonce from that address, at most one distinct handshake per request.",
   note="Rejected handshakes are treated as possibly re-arming the challenge (lenient). Session changes are observed through the guarded probe.",
   ref="7.0 / C03")

CHECKS["C02"] = dict(engine="wire", technique="property-based fault injection (datagram mutation / splicing / redirection) with a ledger-inclusion oracle over delivered messages",
   text="Exploration: generated honest exchanges in which any logged datagram is bit-flipped per region (raw and unmasked domain), truncated, extended, spliced, auth-data-swapped, re-IVed, given another handshake record, re-masked / redirected to another node or presented from another address; every surfaced Request/Response must stem from a byte-identical genuine datagram of an honest peer for exactly this node, from that peer's address, attributed to it, with content that peer's application handed over.",
   note="AEAD forgery by chance treated as impossible; duplicates of genuine message datagrams may be delivered again (not forbidden by the statement).",
   ref="7.0 / C02")

CHECKS["C19"] = dict(engine="wire", technique="stateful property-based testing over long traffic schedules; history invariant on (key, nonce) pairs via trial decryption",
   text="Exploration: generated long schedules (bursts of requests in one session, retransmissions, re-keying from both sides, re-encryption of in-flight requests, record-less contacts); every emitted datagram is attributed to the session key that authenticates it and no two different datagrams under one key may share a nonce; id-nonces of WHOAREYOUs never repeat.",
   note="Detects structural reuse only (not reduced entropy below the birthday bound). Keys come from the guarded probe. One case in 401 is a long-session companion (hook VSession): one Session encrypts 150 000..400 000 (thorough ..1 200 000) different messages under one key; a nonce space of 2^32 or less shows there.",
   ref="7.5 / C19")

CHECKS["C15"] = dict(engine="wire", technique="property-based testing over exchange/idle schedules with measured real idle periods (one-directional expiry oracle) + LRU ledger",
   text="Exploration: generated schedules of exchanges with 2..6 peers against a handler with capacity 1..5 and session timeout 120 ms / 1 day; after a MEASURED idle > 1.3 x timeout the next datagram must not be encrypted under a pre-idle key and an old-session message must not be delivered; the probe snapshot never exceeds the capacity and evictions hit exactly the least recently used peer. Found that expired sessions stayed in use on the pinned tree (fixed).",
   note="Real sleeps (std::time::Instant); only one-directional claims so that machine load cannot cause an alarm. Quick tier is comparatively small (1200 cases) because every expiry case sleeps ~0.2-0.4 s of real time.",
   ref="7.5 / C15")

CHECKS["C14"] = dict(engine="svc", technique="property-based testing of the real service behind a scripted handler: generated table contents and requests, validity predicates over the emitted responses",
   text="Exploration: generated tables (incl. many 300-byte records) and FINDNODE/PING requests (all distance-list shapes, requester stored or not, ports incl. 0, record changes in between); every emitted NODES/PONG is checked for id, destination, total, membership/distance/no-requester/no-duplicates, count range, wire size <= 1280 through the real codecs, and the PONG's seq and observed address.",
   note="Scripted handler hook; table filled via add_enr; selection among surplus eligible entries is unspecified, so a count range is asserted. Four cases in 67 are a pipe companion (the NODES packets of a real service are handed to a real handler holding a session; each must appear on the wire once, <= 1280 bytes), one in 67 a wire companion with NAT requesters.",
   ref="7.4 / C14")

CHECKS["C20"] = dict(engine="svc", technique="stateful property-based testing of the TALK request life cycle (respond / drop / hold / other thread / full or absent event stream / shutdown) with a per-request ledger",
   text="Exploration: generated scripts of concurrent TALKREQs and application reactions in all orders against the real service behind a scripted handler; after every step each request has exactly the expected TALKRESP (payload or empty) or none while held; after shutdown respond returns ChannelClosed and drop does not panic.",
   note="Request ids unique per source within a script. One case in 151 is a wire-engine companion: up to 90 held TALK requests are answered in one go by a real handler (requesters possibly banned in between); every answer must hit the wire exactly once.",
   ref="7.4 / C20")

CHECKS["C11"] = dict(engine="svc", technique="differential / metamorphic property-based testing: the implementation's own responder as the honest reference, harness-built malicious answers, all 257 target/peer distance classes by construction",
   text="Exploration: lookups whose target is placed at every log2 distance class from the peer; the generated FINDNODE is answered either by a second real service (honest reference; complete, lossy, duplicated, reordered) or by harness-built malicious NODES packets (off-distance records, own records, duplicates, extreme totals, floods, packets after completion); accepted records, the ban list, the 15-packet cap and post-completion inertness are checked. Found two defects on the pinned tree (honest responder banned for [1,2,0]; single foreign record accepted for [0]), both fixed.",
   note="Honest reference = this implementation (as the statement says). Real key hashes only populate distance classes >= ~248; lower classes exercise request generation and the own-record path. Global ban list reset per case.",
   ref="7.4 / C11")

CHECKS["C12"] = dict(engine="svc", technique="stateful property-based testing of the real service behind a scripted handler that obeys the real handler's post-conditions; table invariants after every step",
   text="Exploration: generated scripts of sessions (incoming handshakes modelled through the service's own who-are-you answers, outgoing Established for outstanding requests), NODES answers, PONGs, failures and user calls over records of all shapes, three IP modes and three table filters; after every step every table entry must be contactable, pass the filter, have provenance (session or explicit add), and network-learnt replacements must carry a strictly higher seq. Found two defects on the pinned tree (table filter bypassed by sessions; older record overwriting a newer one), both fixed.",
   note="Injected events obey the handler's post-conditions (checked on the real handler by the wire-engine companion, DESIGN.md C12). add_enr is a user action and not subject to the seq rule.",
   ref="7.4 / C12")

CHECKS["C17"] = dict(engine="svc", technique="stateful property-based testing of the PONG-to-record path of the real service with a vote ledger",
   text="Exploration: generated vote scripts (3..24 voters, minimum 2..6, 2..4 candidate addresses incl. IPv6 in dual stack, voters changing votes across ping rounds, failed pings); whenever the local record's UDP socket changes the ledger must show >= minimum current votes, a unique maximum with the clear-majority margin (all-eligible scripts), the triggering input must be a PONG, seq must grow, the signature must verify and SocketUpdated must be emitted.",
   note="Votes are per address family, as the record's v4 and v6 sockets are separate. Vote expiry (IpVote reads the real clock) is explored in a separate regime (one case in 41: 80 ms vote duration, measured real idle periods) with a one-directional claim only: an update needs >= minimum peers whose naming of the address is not certainly expired. Six cases in 89 are a vote-table companion (hook VIpVote): blocks of up to 700 voters on the vote table alone, the majority it names is checked against the ledger (minimum, unique maximum, exact 70% rule). Thorough tier adds a coverage-guided libFuzzer campaign over byte-decoded vote-table histories (target c17_votes).",
   ref="7.4 / C17")

NOT_YET = {}

def main():
    props = [json.loads(l) for l in open("/verif/properties.jsonl")]
    checks, na = [], []
    for p in props:
        pid = p["id"]
        if pid in CHECKS:
            c = CHECKS[pid]
            checks.append({
                "property_id": pid,
                "quick_cmd": f"./check {pid} --tier quick",
                "thorough_cmd": c.get("thorough", f"./check {pid} --tier thorough"),
                "evidence_file": f"/verif/evidence/{pid}.json",
                "replay_cmd_template": f"./check {pid} --replay {{path}}",
                "engine": c["engine"],
                "level_claimed": {"category": "exploration", "text": c["text"], "design_ref": c["ref"]},
                "level_note": c["note"],
                "technique": c["technique"],
            })
        else:
            na.append({"property_id": pid, "reason": NOT_YET.get(pid, "check not built yet (work in progress; see DESIGN.md section 10 build order)")})
    m = {
        "version": 1,
        "setup_cmd": "cd /verif/harness && CARGO_NET_OFFLINE=true cargo build --release --offline",
        "hooks": {
            "guard": "cargo feature verif-hooks (declared in /repo/Cargo.toml, off by default)",
            "enable": "the harness depends on discv5 = { path = \"/repo\", features = [\"verif-hooks\"] }; ./check rebuilds it from /repo's working tree",
            "baseline_off_cmd": "cd /repo && CARGO_NET_OFFLINE=true cargo test --workspace --no-fail-fast --offline",
            "source_commits": [l.split()[0] for l in HOOK_COMMITS],
            "add_only": True,
        },
        "engines": [
            {"name": "query", "path": "harness/src/engines/query.rs", "serves_properties": ["C09", "C10"], "kind_free_text": "proptest event histories over the real query state machines and QueryPool"},
            {"name": "codec", "path": "harness/src/props/c05.rs, c06.rs, harness/src/refmodel/", "serves_properties": ["C05", "C06"], "kind_free_text": "proptest structured + mutation + byte generators vs. reference codecs"},
            {"name": "filter", "path": "harness/src/props/c18.rs", "serves_properties": ["C18"], "kind_free_text": "proptest arrival sequences over the real Limiter / Filter"},
            {"name": "wire", "path": "harness/src/engines/wire.rs, wire_interp.rs", "serves_properties": ["C01", "C02", "C03", "C04", "C13", "C15", "C19"], "kind_free_text": "real Handlers on an in-memory wire inside a paused single-threaded tokio runtime; proptest op schedules"},
            {"name": "svc", "path": "harness/src/engines/svc.rs", "serves_properties": ["C11", "C12", "C14", "C17", "C20"], "kind_free_text": "real Discv5/Service with a scripted handler (channels), paused clock; proptest scripts"},
            {"name": "table", "path": "harness/src/engines/table.rs", "serves_properties": ["C07", "C08", "C16"], "kind_free_text": "proptest op histories over the real KBucketsTable"},
            {"name": "fuzz", "path": "fuzz/ (cargo-fuzz crate), harness/src/fuzzdec.rs, tools/fuzz.sh", "serves_properties": ["C05", "C06", "C07", "C08", "C09", "C10", "C16", "C17", "C18"], "kind_free_text": "libFuzzer targets that decode bytes into the same case types and call the same Property::run oracle as the proptest checks; run by the thorough tier with a fixed number of executions"},
        ],
        "checks": checks,
        "not_applicable": na,
        "notes": "All checks are property-based tests / fuzzers (proptest via ./check -> harness/target/release/vcheck; thorough tier of C05-C10, C16, C17, C18 additionally runs libFuzzer campaigns via tools/fuzz.sh, VERIF_FUZZ_SCALE multiplies their run counts). Changes written by independent sub-agents and the checks that catch them: seeded/ and DESIGN.md 11.7. Exit 0 held, 1 violation (VIOLATION line + replay file), 2 inconclusive. known_findings.json lists fixed/known defects.",
    }
    json.dump(m, open("/verif/MANIFEST.json", "w"), indent=1)
    print("checks:", len(checks), "not_applicable:", len(na))

main()
