#!/bin/bash
# usage: tools/sedmut.sh <file relative to /repo> <perl substitution> <Cxx>...
# Builds a one-off mutant patch with perl -0pe (multi-line capable), runs checks via mutant.sh.
set -u
f="$1"; expr="$2"; shift 2
mkdir -p /tmp/mut
cp "/repo/$f" /tmp/mut/orig
perl -0pe "$expr" "/repo/$f" > /tmp/mut/new
if cmp -s /tmp/mut/orig /tmp/mut/new; then echo "MUTATION DID NOT CHANGE THE FILE"; exit 3; fi
diff -u /tmp/mut/orig /tmp/mut/new | sed "1s|.*|--- a/$f|; 2s|.*|+++ b/$f|" > /tmp/mut/sed.diff
/verif/tools/mutant.sh /tmp/mut/sed.diff "$@"
