#![no_main]
//! libFuzzer target for C17: raw bytes -> case (vharness::fuzzdec::c17_votes) -> the check's own oracle.
use libfuzzer_sys::fuzz_target;
fuzz_target!(|data: &[u8]| {
    let case = vharness::fuzzdec::c17_votes(data);
    vharness::runner::fuzz_case::<vharness::props::c17::C17>(&case);
});
