#![no_main]
//! libFuzzer target for C05: raw bytes -> case (vharness::fuzzdec::c05_raw) -> the check's own oracle.
use libfuzzer_sys::fuzz_target;
fuzz_target!(|data: &[u8]| {
    let case = vharness::fuzzdec::c05_raw(data);
    vharness::runner::fuzz_case::<vharness::props::c05::C05>(&case);
});
