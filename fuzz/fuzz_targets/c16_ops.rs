#![no_main]
//! libFuzzer target for C16: raw bytes -> case (vharness::fuzzdec::c16) -> the check's own oracle.
use libfuzzer_sys::fuzz_target;
fuzz_target!(|data: &[u8]| {
    let case = vharness::fuzzdec::c16(data);
    vharness::runner::fuzz_case::<vharness::props::c16::C16>(&case);
});
