#![no_main]
//! libFuzzer target for C10: raw bytes -> case (vharness::fuzzdec::qcase) -> the check's own oracle.
use libfuzzer_sys::fuzz_target;
fuzz_target!(|data: &[u8]| {
    let case = vharness::props::c10::Case::Machine(vharness::fuzzdec::qcase(data));
    vharness::runner::fuzz_case::<vharness::props::c10::C10>(&case);
});
