#![no_main]
//! libFuzzer target for C07: raw bytes -> case (vharness::fuzzdec::c07) -> the check's own oracle.
use libfuzzer_sys::fuzz_target;
fuzz_target!(|data: &[u8]| {
    let case = vharness::fuzzdec::c07(data);
    vharness::runner::fuzz_case::<vharness::props::c07::C07>(&case);
});
