#![no_main]
//! libFuzzer target for C18: raw bytes -> case (vharness::fuzzdec::c18) -> the check's own oracle.
use libfuzzer_sys::fuzz_target;
fuzz_target!(|data: &[u8]| {
    let case = vharness::fuzzdec::c18(data);
    vharness::runner::fuzz_case::<vharness::props::c18::C18>(&case);
});
