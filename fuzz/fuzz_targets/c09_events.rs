#![no_main]
//! libFuzzer target for C09: raw bytes -> case (vharness::fuzzdec::c09) -> the check's own oracle.
use libfuzzer_sys::fuzz_target;
fuzz_target!(|data: &[u8]| {
    let case = vharness::fuzzdec::c09(data);
    vharness::runner::fuzz_case::<vharness::props::c09::C09>(&case);
});
