#![no_main]
//! libFuzzer target for C05: the input bytes are the random stream of the property's proptest
//! strategy (PassThrough RNG), the oracle of the check runs inside the target.
use libfuzzer_sys::fuzz_target;
fuzz_target!(|data: &[u8]| {
    vharness::runner::fuzz_one::<vharness::props::c05::C05>(data);
});
