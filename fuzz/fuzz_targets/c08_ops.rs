#![no_main]
//! libFuzzer target for C08: raw bytes -> case (vharness::fuzzdec::c08) -> the check's own oracle.
use libfuzzer_sys::fuzz_target;
fuzz_target!(|data: &[u8]| {
    let case = vharness::fuzzdec::c08(data);
    vharness::runner::fuzz_case::<vharness::props::c08::C08>(&case);
});
