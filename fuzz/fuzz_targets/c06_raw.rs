#![no_main]
//! libFuzzer target for C06: raw bytes -> case (vharness::fuzzdec::c06_raw) -> the check's own oracle.
use libfuzzer_sys::fuzz_target;
fuzz_target!(|data: &[u8]| {
    let case = vharness::fuzzdec::c06_raw(data);
    vharness::runner::fuzz_case::<vharness::props::c06::C06>(&case);
});
